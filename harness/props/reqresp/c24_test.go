package reqresp

import (
	"bytes"
	"encoding/binary"
	"errors"
	"fmt"
	"math"
	"os"
	"strings"
	"sync"
	"testing"
	"time"

	ouroboros "github.com/blinklabs-io/gouroboros"
	"github.com/blinklabs-io/gouroboros/protocol/txsubmission"
	"pgregory.net/rapid"

	"verif/harness/internal/evi"
	"verif/harness/internal/rawpeer"
	"verif/harness/internal/xcbor"
)

// ---- generated histories --------------------------------------------------------

// c24Op is one step of a history.
//
//	ids : Server.RequestTxIds(Blocking, N); the outbound side answers with K ids
//	      (K == -1: it asks to end the protocol instead)
//	txs : Server.RequestTxs of TxsN of the ids received so far
type c24Op struct {
	Kind     string `json:"kind"`
	Blocking bool   `json:"blocking,omitempty"`
	N        int    `json:"n,omitempty"`
	K        int    `json:"k,omitempty"`
	TxsN     int    `json:"txs_n,omitempty"`
	// content of the reply: "" unique ids, "zeros" all-zero ids of size 0, "dups"
	// k copies of one id, "sizes" unique ids with sizes 0 / 1 / 2^32-1
	Flav string `json:"flav,omitempty"`
	// NilEmpty: an empty reply is returned as a nil slice instead of an empty one
	NilEmpty bool `json:"nil_empty,omitempty"`
	// SizeBogus (raw client only): every size on the wire is 2^32 (beyond the field width)
	SizeBogus bool `json:"size_bogus,omitempty"`
	// raw-server family only: explicit acknowledgement on the wire and head widths
	Ack    string `json:"ack,omitempty"` // decimal (may exceed uint64? no: fits int64/uint64)
	Req    string `json:"req,omitempty"`
	WidthA int    `json:"width_ack,omitempty"`
	WidthR int    `json:"width_req,omitempty"`
	Class  string `json:"class,omitempty"`
}

func (o c24Op) String() string {
	switch o.Kind {
	case "txs":
		return fmt.Sprintf("txs(%d)", o.TxsN)
	case "wire":
		return fmt.Sprintf("wire[%s b=%v ack=%s/w%d req=%s/w%d k=%d]", o.Class, o.Blocking, o.Ack, o.WidthA, o.Req, o.WidthR, o.K)
	}
	ext := ""
	if o.Flav != "" {
		ext += " " + o.Flav
	}
	if o.NilEmpty {
		ext += " nil"
	}
	if o.SizeBogus {
		ext += " size=2^32"
	}
	return fmt.Sprintf("ids(b=%v n=%d k=%d%s)", o.Blocking, o.N, o.K, ext)
}

func opsDesc(ops []c24Op) string {
	s := make([]string, len(ops))
	for i, o := range ops {
		s[i] = o.String()
	}
	return strings.Join(s, " ")
}

var c24Invalid = []int{65536, 65537, 70000, 131071, 1 << 31, math.MaxInt64, -1, -2, -65535, -65536, math.MinInt64}

func validN(n int) bool { return n >= 0 && n <= 65535 }

// replyWait is the bound for a call whose reply the history fixes: replies of
// ~65535 ids are 2.7 MB messages, which the library re-parses on every arriving
// segment; on a loaded machine that takes tens of seconds.
func replyWait(o c24Op) time.Duration {
	if o.K > 60000 {
		return 10 * callWait
	}
	return callWait
}

func genN(rt *rapid.T) int {
	switch c := rapid.IntRange(0, 99).Draw(rt, "n_class"); {
	case c < 45:
		return rapid.IntRange(0, 12).Draw(rt, "n_small")
	case c < 55:
		return rapid.SampledFrom([]int{65535, 65534, 65535, 32768, 256, 255}).Draw(rt, "n_edge")
	case c < 75:
		return rapid.IntRange(0, 65535).Draw(rt, "n_any")
	default:
		return rapid.SampledFrom(c24Invalid).Draw(rt, "n_invalid")
	}
}

// genK draws how many ids the outbound side returns for a request of n.
func genK(rt *rapid.T, n int, blocking, allowBig bool) int {
	c := rapid.IntRange(0, 99).Draw(rt, "k_class")
	switch {
	case c < 2:
		return -2 // the callback fails with an ordinary error
	case c < 6:
		return -1 // stop sentinel
	case c < 60:
		m := n
		if m > 12 {
			m = 12
		}
		return rapid.IntRange(0, m).Draw(rt, "k_le_n")
	case c < 80:
		return rapid.IntRange(0, 24).Draw(rt, "k_small") // may exceed n
	case c < 92:
		return rapid.IntRange(25, 600).Draw(rt, "k_mid")
	case c < 96 && allowBig:
		return rapid.SampledFrom([]int{65535, 65534, 65535, 65536, 65537, 70000}).Draw(rt, "k_big")
	default:
		return rapid.IntRange(1, 3).Draw(rt, "k_tiny")
	}
}

func genOps(rt *rapid.T, maxOps int, allowBig bool) []c24Op {
	n := rapid.IntRange(2, maxOps).Draw(rt, "n_ops")
	ops := make([]c24Op, 0, n+1)
	bigs := 0
	for i := 0; i < n; i++ {
		if rapid.IntRange(0, 9).Draw(rt, "op_kind") == 0 {
			ops = append(ops, c24Op{Kind: "txs", TxsN: rapid.IntRange(0, 5).Draw(rt, "txs_n")})
			continue
		}
		o := c24Op{Kind: "ids", Blocking: rapid.Bool().Draw(rt, "blocking"), N: genN(rt)}
		if validN(o.N) {
			o.K = genK(rt, o.N, o.Blocking, allowBig && bigs < 2 && o.Blocking)
			if (o.K == -2 || (o.K < 0 && !o.Blocking)) && rapid.IntRange(0, 2).Draw(rt, "keep_nonblocking_stop") != 0 {
				o.K = 0 // a stop on a non-blocking request ends the history: keep it rare
			}
			if o.K > 60000 {
				bigs++
			}
			if o.K >= 0 && o.K <= 600 {
				o.Flav = rapid.SampledFrom([]string{"", "", "", "", "zeros", "dups", "sizes"}).Draw(rt, "flav")
				o.NilEmpty = o.K == 0 && rapid.Bool().Draw(rt, "nil_empty")
				o.SizeBogus = o.K > 0 && rapid.IntRange(0, 39).Draw(rt, "size_bogus") == 0
			}
		}
		ops = append(ops, o)
	}
	// closing synchronisation request: anything that was wrongly put on the wire
	// earlier is observed at the latest here
	ops = append(ops, c24Op{Kind: "ids", Blocking: false, N: 1, K: 1})
	return ops
}

// genStorm draws 4..16 sessions that each end with Done after 0..2 rounds.
func genStorm(rt *rapid.T) []c24Op {
	n := rapid.IntRange(4, 16).Draw(rt, "storm_sessions")
	var ops []c24Op
	for i := 0; i < n; i++ {
		for r := rapid.IntRange(0, 2).Draw(rt, "storm_rounds"); r > 0; r-- {
			ops = append(ops, c24Op{Kind: "ids", Blocking: rapid.Bool().Draw(rt, "blocking"), N: rapid.IntRange(1, 5).Draw(rt, "n"), K: rapid.IntRange(0, 5).Draw(rt, "k")})
		}
		ops = append(ops, c24Op{Kind: "ids", Blocking: true, N: rapid.IntRange(1, 5).Draw(rt, "n"), K: -1})
	}
	return append(ops, c24Op{Kind: "ids", Blocking: false, N: 1, K: 1})
}

// ---- model ---------------------------------------------------------------------------

// window is the reference model of one protocol session: ids the outbound
// side has replied minus ids the inbound side has acknowledged.
type window struct {
	outstanding int
	rounds      int // requests observed in this session
	replied     int // Σ replied
	acked       int // Σ acked
}

func (w *window) observe(ack uint64, k int) {
	w.acked += int(ack)
	w.replied += k
	w.outstanding = w.replied - w.acked
	w.rounds++
}

func mkTxId(serial uint64) txsubmission.TxId {
	var id txsubmission.TxId
	id.EraId = 6
	binary.BigEndian.PutUint64(id.TxId[0:8], serial)
	for i := 8; i < 32; i++ {
		id.TxId[i] = byte(serial*31 + uint64(i))
	}
	return id
}

// idsFor builds the k ids of a reply whose first id has the given serial.
func idsFor(first uint64, k int, flav string) []txsubmission.TxIdAndSize {
	out := make([]txsubmission.TxIdAndSize, k)
	for i := range out {
		s := first + uint64(i)
		switch flav {
		case "zeros":
			out[i] = txsubmission.TxIdAndSize{}
		case "dups":
			out[i] = txsubmission.TxIdAndSize{TxId: mkTxId(first), Size: uint32(100 + first%1000)}
		case "sizes":
			out[i] = txsubmission.TxIdAndSize{TxId: mkTxId(s), Size: []uint32{0, 1, math.MaxUint32}[i%3]}
		default:
			out[i] = txsubmission.TxIdAndSize{TxId: mkTxId(s), Size: uint32(100 + s%1000)}
		}
	}
	return out
}

func sameIds(a, b []txsubmission.TxIdAndSize) bool {
	if len(a) != len(b) {
		return false
	}
	for i := range a {
		if a[i].TxId != b[i].TxId || a[i].Size != b[i].Size {
			return false
		}
	}
	return true
}

func copyIds(a []txsubmission.TxIdAndSize) []txsubmission.TxIdAndSize {
	return append([]txsubmission.TxIdAndSize(nil), a...)
}

var errCallback = errors.New("harness: the application callback failed")

// replyPlan is what the outbound side does with the next request.
type replyPlan struct {
	K        int
	Flav     string
	NilEmpty bool
}

// cbEntry is one invocation of the outbound side's RequestTxIds callback.
type cbEntry struct {
	Ids        []txsubmission.TxIdAndSize // copy of what the callback returned
	Blocking   bool
	Ack, Req   uint16
	Planned    bool
	NumReplied int
	First      uint64 // serial of the first id returned
}

type c24Client struct {
	mu     sync.Mutex
	log    []cbEntry
	plan   *replyPlan // for the next request (nil: none planned)
	serial uint64
	txsLog int
	// the slices handed to / received from the library, kept to the end
	handedOut [][]txsubmission.TxIdAndSize
	txsSeen   [][]txsubmission.TxId // as received by RequestTxsFunc
	txsCopy   [][]txsubmission.TxId // copies taken at that time
}

func (c *c24Client) setPlan(k int) { c.setPlanOp(c24Op{K: k}) }

func (c *c24Client) setPlanOp(o c24Op) {
	c.mu.Lock()
	c.plan = &replyPlan{K: o.K, Flav: o.Flav, NilEmpty: o.NilEmpty}
	c.mu.Unlock()
}

// scribble overwrites every slice the callback handed to the library so far
// (the library must have taken what it needs by the time the reply was sent).
func (c *c24Client) scribble() {
	c.mu.Lock()
	defer c.mu.Unlock()
	for _, sl := range c.handedOut {
		for i := range sl {
			sl[i].Size = 0xDEADBEEF
			for j := range sl[i].TxId.TxId {
				sl[i].TxId.TxId[j] = 0xEE
			}
		}
	}
	c.handedOut = nil
}

// txsChanged reports whether an id list received by RequestTxsFunc differs
// from the copy taken when it was received.
func (c *c24Client) txsChanged() (int, bool) {
	c.mu.Lock()
	defer c.mu.Unlock()
	for i := range c.txsSeen {
		if len(c.txsSeen[i]) != len(c.txsCopy[i]) {
			return i, true
		}
		for j := range c.txsSeen[i] {
			if c.txsSeen[i][j] != c.txsCopy[i][j] {
				return i, true
			}
		}
	}
	return 0, false
}

func (c *c24Client) entries() []cbEntry {
	c.mu.Lock()
	defer c.mu.Unlock()
	return append([]cbEntry(nil), c.log...)
}

func (c *c24Client) config() txsubmission.Config {
	return txsubmission.NewConfig(
		txsubmission.WithRequestTxIdsFunc(func(_ txsubmission.CallbackContext, blocking bool, ack, req uint16) ([]txsubmission.TxIdAndSize, error) {
			c.mu.Lock()
			defer c.mu.Unlock()
			e := cbEntry{Blocking: blocking, Ack: ack, Req: req}
			var pl replyPlan
			if c.plan != nil {
				e.Planned = true
				pl = *c.plan
				c.plan = nil
			}
			k := pl.K
			if k < 0 {
				e.NumReplied = k
				c.log = append(c.log, e)
				if k == -2 {
					return nil, errCallback
				}
				return nil, txsubmission.ErrStopServerProcess
			}
			e.NumReplied = k
			e.First = c.serial + 1
			out := idsFor(c.serial+1, k, pl.Flav)
			c.serial += uint64(k)
			e.Ids = copyIds(out)
			c.log = append(c.log, e)
			if k == 0 && pl.NilEmpty {
				return nil, nil
			}
			c.handedOut = append(c.handedOut, out)
			return out, nil
		}),
		txsubmission.WithRequestTxsFunc(func(_ txsubmission.CallbackContext, ids []txsubmission.TxId) ([]txsubmission.TxBody, error) {
			c.mu.Lock()
			c.txsLog++
			c.txsSeen = append(c.txsSeen, ids)
			c.txsCopy = append(c.txsCopy, append([]txsubmission.TxId(nil), ids...))
			c.mu.Unlock()
			out := make([]txsubmission.TxBody, len(ids))
			for i, id := range ids {
				out[i] = txsubmission.TxBody{EraId: id.EraId, TxBody: append([]byte{0x58, 0x20}, id.TxId[:]...)}
			}
			return out, nil
		}),
	)
}

type c24Server struct {
	initCh chan struct{}
	mu     sync.Mutex
	dones  int
}

func newC24Server() *c24Server { return &c24Server{initCh: make(chan struct{}, 8)} }

func (s *c24Server) config() txsubmission.Config {
	return txsubmission.NewConfig(
		txsubmission.WithInitFunc(func(txsubmission.CallbackContext) error {
			select {
			case s.initCh <- struct{}{}:
			default:
			}
			return nil
		}),
		txsubmission.WithDoneFunc(func(txsubmission.CallbackContext) error {
			s.mu.Lock()
			s.dones++
			s.mu.Unlock()
			return nil
		}),
	)
}

func (s *c24Server) doneCount() int {
	s.mu.Lock()
	defer s.mu.Unlock()
	return s.dones
}

func (s *c24Server) waitInit(d time.Duration) bool {
	select {
	case <-s.initCh:
		return true
	case <-time.After(d):
		return false
	}
}

type idsResult struct {
	ids []txsubmission.TxIdAndSize
	err error
}

func callRequestTxIds(srv *txsubmission.Server, blocking bool, n int) chan idsResult {
	ch := make(chan idsResult, 1)
	go func() {
		ids, err := srv.RequestTxIds(blocking, n)
		ch <- idsResult{ids, err}
	}()
	return ch
}

func nClass(n int) string {
	switch {
	case n < 0:
		return "negative"
	case n > 65535:
		return "above-65535"
	}
	return "in-range"
}

// c24Ctx carries what every family needs.
type c24Ctx struct {
	rec *evi.Recorder
	tb  c24TB
	cs  map[string]any
	// sweep: the deterministic part outside rapid (failures are recorded with
	// rec.Violation and do not stop the test)
	sweep        bool
	planA, planB rawpeer.Plan
	indef        bool // raw client: indefinite-length id lists
	nt  bool // the executed part of the history met the non-triviality rule
	// settle is how long the harness waits after the server installed its new
	// protocol instance before it starts the next session (a short wait keeps the
	// restart's own goroutines in flight; 0 can lose the Init: history ends)
	settle time.Duration
}

// c24TB is what the families need from *rapid.T / *testing.T.
type c24TB interface {
	Fatalf(format string, args ...any)
	Helper()
}

// fail reports a verdict; true means "listed as known, go on".
func (x *c24Ctx) fail(key, what string) bool {
	x.cs["goroutines"] = goroutineDump()
	if x.sweep {
		cs := map[string]any{}
		for k, v := range x.cs {
			cs[k] = v
		}
		return x.rec.Violation(key, what, cs)
	}
	return x.rec.Fail(x.tb, key, what, x.cs)
}

// ---- family A: real server, real client -------------------------------------------------

func c24RealReal(x *c24Ctx, ops []c24Op) {
	rec, rt := x.rec, x.tb
	cl := &c24Client{}
	sv := newC24Server()
	ccfg, scfg := cl.config(), sv.config()
	planA, planB := x.planA, x.planB
	x.cs["plans"] = planDesc(planA) + " | " + planDesc(planB)
	p, err := newPair(true, planA, planB,
		[]ouroboros.ConnectionOptionFunc{ouroboros.WithTxSubmissionConfig(ccfg)},
		[]ouroboros.ConnectionOptionFunc{ouroboros.WithTxSubmissionConfig(scfg)})
	if err != nil {
		rt.Fatalf("setup: %v", err)
	}
	defer p.close()
	client := p.cli.TxSubmission().Client
	server := p.srv.TxSubmission().Server
	client.Init()
	if !sv.waitInit(setupWait) {
		rt.Fatalf("setup: server InitFunc not called within %s (client errs %v, server errs %v)", setupWait, p.cliErr.list(), p.srvErr.list())
	}
	var w window
	var have []txsubmission.TxId // ids received by the inbound side in this session
	prev := "start"
	sessions := 1
	// everything the inbound API returned is kept to the end of the history and
	// compared with a copy taken at return time (a result must not change later)
	type keptIds struct {
		op        int
		got, want []txsubmission.TxIdAndSize
	}
	type keptBodies struct {
		op        int
		got, want []txsubmission.TxBody
	}
	var kIds []keptIds
	var kBodies []keptBodies
	defer func() {
		if p := recover(); p != nil {
			panic(p)
		}
		rec.Eval()
		for _, k := range kIds {
			if !sameIds(k.got, k.want) {
				x.fail("C24:A:returned-ids-changed-later", fmt.Sprintf("the %d ids RequestTxIds returned at op %d no longer equal what was returned then (first now %+v, then %+v)", len(k.want), k.op, firstId(k.got), firstId(k.want)))
				return
			}
		}
		for _, k := range kBodies {
			for j := range k.want {
				if k.got[j].EraId != k.want[j].EraId || !bytes.Equal(k.got[j].TxBody, k.want[j].TxBody) {
					x.fail("C24:A:returned-bodies-changed-later", fmt.Sprintf("body %d RequestTxs returned at op %d changed after the return", j, k.op))
					return
				}
			}
		}
		if i, changed := cl.txsChanged(); changed {
			x.fail("C24:A:callback-txids-changed-later", fmt.Sprintf("the id list handed to RequestTxsFunc call %d changed after the callback returned", i))
		}
	}()
	for i, o := range ops {
		x.cs["failed_at_op"] = i
		if o.Kind == "txs" {
			n := o.TxsN
			if n > len(have) {
				n = len(have)
			}
			req := append([]txsubmission.TxId(nil), have[len(have)-n:]...)
			var bodies []txsubmission.TxBody
			var terr error
			if !within(callWait, func() { bodies, terr = server.RequestTxs(req) }) {
				rt.Fatalf("RequestTxs did not return within %s\n%s", callWait, goroutineDump())
			}
			if terr != nil {
				rt.Fatalf("RequestTxs: unexpected error %v", terr)
			}
			rec.Class("A:txs_round")
			if len(bodies) != len(req) {
				rt.Fatalf("RequestTxs returned %d bodies for %d ids", len(bodies), len(req))
			}
			kb := keptBodies{op: i, got: bodies}
			for _, b := range bodies {
				kb.want = append(kb.want, txsubmission.TxBody{EraId: b.EraId, TxBody: append([]byte(nil), b.TxBody...)})
			}
			kBodies = append(kBodies, kb)
			// the caller re-uses its request slice
			for j := range req {
				req[j] = txsubmission.TxId{EraId: 0xFFFF}
			}
			prev = "txs"
			continue
		}
		before := len(cl.entries())
		if !validN(o.N) {
			var r idsResult
			select {
			case r = <-callRequestTxIds(server, o.Blocking, o.N):
			case <-time.After(callWait):
				x.fail("C24:A:api-out-of-range-blocks:"+nClass(o.N), fmt.Sprintf("RequestTxIds(%v,%d) neither failed nor returned within %s", o.Blocking, o.N, callWait))
				return
			}
			rec.Eval()
			rec.Class("A:api_out_of_range_" + nClass(o.N))
			x.nt = true
			if r.err == nil {
				if x.fail("C24:A:api-accepts-out-of-range:"+nClass(o.N), fmt.Sprintf("RequestTxIds(%v,%d) returned no error (ids=%d)", o.Blocking, o.N, len(r.ids))) {
					return
				}
			}
			prev = "rejected-" + nClass(o.N)
			continue
		}
		// valid request
		cl.setPlanOp(o)
		oldInst := server.ProtocolInstance()
		stuck := w.outstanding > 65535 // the whole backlog cannot be acknowledged in one message
		var r idsResult
		select {
		case r = <-callRequestTxIds(server, o.Blocking, o.N):
		case <-time.After(replyWait(o)):
			rt.Fatalf("RequestTxIds(%v,%d) did not return within %s\n%s", o.Blocking, o.N, callWait, goroutineDump())
		}
		ents := cl.entries()
		newEnts := ents[before:]
		if len(newEnts) == 0 {
			// nothing reached the outbound side
			if r.err == nil {
				x.fail("C24:A:reply-without-request", fmt.Sprintf("op %d %s returned %d ids but the outbound callback never ran", i, o, len(r.ids)))
				return
			}
			if stuck {
				rec.Class("A:backlog_above_65535_call_refused")
				rec.Eval()
				x.cs["ended"] = "backlog above 65535: the API refuses to continue (allowed: nothing was put on the wire)"
				return
			}
			rt.Fatalf("op %d %s: unexpected error %v before anything was sent (client errs %v, server errs %v)", i, o, r.err, p.cliErr.list(), p.srvErr.list())
		}
		if len(newEnts) > 1 {
			x.fail("C24:A:extra-request-on-wire:prev="+prev, fmt.Sprintf("op %d %s produced %d requests at the outbound side: %+v", i, o, len(newEnts), newEnts))
			return
		}
		e := newEnts[0]
		rec.Eval()
		rec.Class("A:request_observed")
		if w.replied > 0 || o.K < 0 || sessions > 1 {
			x.nt = true
		}
		if e.Blocking != o.Blocking || int(e.Req) != o.N {
			if x.fail("C24:A:request-differs-from-call:prev="+prev, fmt.Sprintf("op %d %s arrived as blocking=%v req=%d ack=%d", i, o, e.Blocking, e.Req, e.Ack)) {
				return
			}
		}
		if int(e.Ack) > w.outstanding {
			if x.fail(fmt.Sprintf("C24:A:ack-exceeds-outstanding:prev=%s", prev),
				fmt.Sprintf("op %d %s acknowledged %d ids but only %d are outstanding (replied %d, acknowledged %d so far; round %d of the session)", i, o, e.Ack, w.outstanding, w.replied, w.acked, w.rounds+1)) {
				return
			}
		}
		if int(e.Ack) == w.outstanding && w.outstanding > 0 {
			rec.Class("A:ack_equals_outstanding_nonzero")
		}
		if o.K == -2 {
			// the application callback failed: the protocol is torn down; on a
			// non-blocking request that must not be reported to the peer as Done
			rec.Class("A:callback_error")
			waitTornDownOrDone(p, sv, sessions)
			rec.Eval()
			x.nt = true
			if !o.Blocking && sv.doneCount() >= sessions {
				x.fail("C24:A:done-on-nonblocking:callback-error", fmt.Sprintf("op %d %s: the callback failed on a non-blocking request and the outbound side sent Done", i, o))
			}
			if r.err == nil {
				x.fail("C24:A:reply-after-callback-error", fmt.Sprintf("op %d %s: RequestTxIds returned %d ids although the outbound callback failed", i, o, len(r.ids)))
			}
			x.cs["ended"] = "callback error: connection torn down"
			return
		}
		if o.K < 0 {
			// the outbound side asked to end the protocol
			if o.Blocking {
				rec.Class("A:stop_on_blocking")
				if r.err == nil {
					rt.Fatalf("op %d %s: RequestTxIds returned ids although the client ended the protocol", i, o)
				}
				deadline := time.Now().Add(callWait)
				for sv.doneCount() < sessions && time.Now().Before(deadline) {
					time.Sleep(time.Millisecond)
				}
				rec.Eval()
				if sv.doneCount() < sessions {
					rt.Fatalf("op %d %s: the client's stop on a blocking request did not reach the server as Done (err=%v)", i, o, r.err)
				}
				// new session: the server restarts its protocol instance by itself;
				// the client is stopped, started and initialised again
				for server.ProtocolInstance() == oldInst && time.Now().Before(deadline) {
					time.Sleep(time.Millisecond)
				}
				time.Sleep(x.settle)
				restarted := within(callWait, func() {
					_ = client.Stop()
					client.Start()
					client.Init()
				})
				if !restarted || !sv.waitInit(3*time.Second) {
					rec.Class("A:restart_not_usable")
					x.cs["ended"] = fmt.Sprintf("Done after blocking request; restart not usable (client errs %v, server errs %v)", p.cliErr.list(), p.srvErr.list())
					return
				}
				rec.Class("A:done_then_new_session")
				sessions++
				w = window{}
				have = nil
				prev = "new-session"
				continue
			}
			rec.Class("A:stop_on_nonblocking")
			// must not end the protocol with Done: the connection is torn down instead
			waitTornDownOrDone(p, sv, sessions)
			rec.Eval()
			if sv.doneCount() >= sessions {
				x.fail("C24:A:done-on-nonblocking", fmt.Sprintf("op %d %s: the outbound side answered a non-blocking request with Done (server DoneFunc ran)", i, o))
			}
			if r.err == nil {
				x.fail("C24:A:reply-after-refused-stop", fmt.Sprintf("op %d %s: RequestTxIds returned %d ids", i, o, len(r.ids)))
			}
			x.cs["ended"] = "stop on non-blocking request: connection torn down"
			return
		}
		if r.err != nil {
			rt.Fatalf("op %d %s: unexpected error %v (client errs %v, server errs %v)", i, o, r.err, p.cliErr.list(), p.srvErr.list())
		}
		if !sameIds(r.ids, e.Ids) {
			if x.fail("C24:A:ids-differ-from-reply:prev="+prev, fmt.Sprintf("op %d %s: outbound side replied %d ids (first %+v); RequestTxIds returned %d (first %+v)", i, o, e.NumReplied, firstId(e.Ids), len(r.ids), firstId(r.ids))) {
				return
			}
		}
		if len(r.ids) <= 1000 {
			kIds = append(kIds, keptIds{op: i, got: r.ids, want: copyIds(r.ids)})
		}
		// the application re-uses the slices it handed to the library
		cl.scribble()
		if o.Flav != "" {
			rec.Class("A:reply_flavour_" + o.Flav)
		}
		if o.NilEmpty {
			rec.Class("A:reply_nil_slice")
		}
		w.observe(uint64(e.Ack), e.NumReplied)
		for _, id := range r.ids {
			if len(have) < 64 {
				have = append(have, id.TxId)
			}
		}
		if e.NumReplied > 0 {
			rec.Class("A:round_with_ids")
		}
		if e.NumReplied > int(e.Req) {
			rec.Class("A:client_replied_more_than_requested")
		}
		if e.NumReplied >= 65535 {
			rec.Class(fmt.Sprintf("A:reply_of_%d_ids", e.NumReplied))
		}
		prev = "ids"
	}
	x.cs["ended"] = "history complete"
}

// waitTornDownOrDone waits until the server connection has shut down or the
// server has seen Done for the current session, whichever comes first.
func waitTornDownOrDone(p *pair, sv *c24Server, sessions int) {
	deadline := time.Now().Add(callWait)
	for time.Now().Before(deadline) {
		if sv.doneCount() >= sessions || p.srvErr.waitDone(5*time.Millisecond) {
			return
		}
	}
}

func firstId(a []txsubmission.TxIdAndSize) string {
	if len(a) == 0 {
		return "-"
	}
	return fmt.Sprintf("%x../era%d/size%d", a[0].TxId.TxId[:10], a[0].TxId.EraId, a[0].Size)
}

// ---- family B: real server, raw client (wire observation) ---------------------------------

// parseRequestTxIds parses [0, blocking, ack, req] with the independent parser.
func parseRequestTxIds(b []byte) (blocking bool, ack, req *xcbor.Node, err error) {
	n, perr := xcbor.ParseExact(b)
	if perr != nil {
		return false, nil, nil, perr
	}
	if n.Kind != xcbor.Array || len(n.Items) != 4 || n.Items[0].Kind != xcbor.Uint || n.Items[0].Arg != 0 {
		return false, nil, nil, fmt.Errorf("not a MsgRequestTxIds: %x", b)
	}
	bn := n.Items[1]
	if bn.Kind != xcbor.Simple || (bn.Arg != 20 && bn.Arg != 21) {
		return false, nil, nil, fmt.Errorf("blocking flag is not a boolean: %x", b)
	}
	return bn.Arg == 21, n.Items[2], n.Items[3], nil
}

// replyTxIdsNode encodes ids as MsgReplyTxIds; sizeOverride >= 0 replaces every size on the wire.
func replyTxIdsNode(ids []txsubmission.TxIdAndSize, indef bool, sizeOverride int64) *xcbor.Node {
	items := make([]*xcbor.Node, len(ids))
	for i, id := range ids {
		size := uint64(id.Size)
		if sizeOverride >= 0 {
			size = uint64(sizeOverride)
		}
		items[i] = xcbor.A(xcbor.A(xcbor.U(uint64(id.TxId.EraId)), xcbor.B(append([]byte(nil), id.TxId.TxId[:]...))), xcbor.U(size))
	}
	list := xcbor.A(items...)
	if indef {
		list = xcbor.AI(items...)
	}
	return xcbor.A(xcbor.U(1), list)
}

func c24RawClient(x *c24Ctx, ops []c24Op) {
	rec, rt := x.rec, x.tb
	sv := newC24Server()
	scfg := sv.config()
	planA, planB := x.planA, x.planB
	indef := x.indef
	x.cs["plans"] = planDesc(planA) + " | " + planDesc(planB)
	h, err := listenRaw(planA, planB, ouroboros.WithTxSubmissionConfig(scfg))
	if err != nil {
		rt.Fatalf("setup: %v", err)
	}
	defer h.close()
	server := h.oc.TxSubmission().Server
	sendInit := func(d time.Duration) bool {
		if err := h.peer.SendMsg(protoTxSubmission, false, xcbor.A(xcbor.U(6)).Encode()); err != nil {
			return false
		}
		return sv.waitInit(d)
	}
	if !sendInit(setupWait) {
		rt.Fatalf("setup: server InitFunc not called (server errs %v)", h.errs.list())
	}
	var w window
	var serial uint64
	prev := "start"
	sessions := 1
	var kept [][2][]txsubmission.TxIdAndSize // returned slice, copy at return time
	defer func() {
		if p := recover(); p != nil {
			panic(p)
		}
		rec.Eval()
		for j, k := range kept {
			if !sameIds(k[0], k[1]) {
				x.fail("C24:B:returned-ids-changed-later", fmt.Sprintf("the ids returned by the %d-th answered request changed after the return (first now %s, then %s)", j+1, firstId(k[0]), firstId(k[1])))
				return
			}
		}
	}()
	for i, o := range ops {
		x.cs["failed_at_op"] = i
		if o.Kind == "txs" {
			continue // transaction requests are exercised in family A
		}
		if !validN(o.N) {
			var r idsResult
			select {
			case r = <-callRequestTxIds(server, o.Blocking, o.N):
			case <-time.After(callWait):
				x.fail("C24:B:api-out-of-range-blocks:"+nClass(o.N), fmt.Sprintf("RequestTxIds(%v,%d) neither failed nor returned within %s", o.Blocking, o.N, callWait))
				return
			}
			rec.Eval()
			rec.Class("B:api_out_of_range_" + nClass(o.N))
			x.nt = true
			if r.err == nil {
				if x.fail("C24:B:api-accepts-out-of-range:"+nClass(o.N), fmt.Sprintf("RequestTxIds(%v,%d) returned no error", o.Blocking, o.N)) {
					return
				}
			}
			prev = "rejected-" + nClass(o.N)
			continue
		}
		stuck := w.outstanding > 65535
		ch := callRequestTxIds(server, o.Blocking, o.N)
		// either the request shows up on the wire or the call fails
		type wireRes struct {
			msg []byte
			err error
		}
		wch := make(chan wireRes, 1)
		stopWait := make(chan struct{})
		go func() {
			// poll so that an early failure of the call ends the wait
			for {
				msg, err := h.peer.NextMsg(protoTxSubmission, true, 20*time.Millisecond)
				if err == nil || !strings.Contains(err.Error(), "timeout") {
					wch <- wireRes{msg, err}
					return
				}
				select {
				case <-stopWait:
					wch <- wireRes{nil, err}
					return
				default:
				}
			}
		}()
		var wr wireRes
		var r idsResult
		gotCall := false
		select {
		case wr = <-wch:
		case r = <-ch:
			gotCall = true
			// give a message that is already in flight a moment, then stop waiting
			time.Sleep(30 * time.Millisecond)
			close(stopWait)
			wr = <-wch
		case <-time.After(callWait):
			close(stopWait)
			rt.Fatalf("op %d %s: neither a request on the wire nor a return within %s\n%s", i, o, callWait, goroutineDump())
		}
		if wr.msg == nil {
			if !gotCall {
				rt.Fatalf("op %d %s: wire read failed: %v (server errs %v)", i, o, wr.err, h.errs.list())
			}
			if r.err == nil {
				x.fail("C24:B:reply-without-request", fmt.Sprintf("op %d %s returned %d ids but nothing was sent", i, o, len(r.ids)))
				return
			}
			if stuck {
				rec.Class("B:backlog_above_65535_call_refused")
				rec.Eval()
				x.cs["ended"] = "backlog above 65535: the API refuses to continue"
				return
			}
			rt.Fatalf("op %d %s: unexpected error %v before anything was sent (server errs %v)", i, o, r.err, h.errs.list())
		}
		blocking, ackN, reqN, perr := parseRequestTxIds(wr.msg)
		rec.Eval()
		rec.Class("B:request_on_wire")
		if w.replied > 0 || o.K < 0 || sessions > 1 {
			x.nt = true
		}
		x.cs["wire_msg"] = fmt.Sprintf("%x", wr.msg)
		if perr != nil {
			x.fail("C24:B:malformed-request-on-wire", fmt.Sprintf("op %d %s: %v", i, o, perr))
			return
		}
		if ackN.Kind != xcbor.Uint || reqN.Kind != xcbor.Uint || ackN.Arg > 65535 || reqN.Arg > 65535 {
			if x.fail("C24:B:count-out-of-range-on-wire:prev="+prev, fmt.Sprintf("op %d %s: wire message %x has ack/req outside 0..65535", i, o, wr.msg)) {
				return
			}
		}
		if blocking != o.Blocking || reqN.Kind != xcbor.Uint || int(reqN.Arg) != o.N {
			if x.fail("C24:B:request-differs-from-call:prev="+prev, fmt.Sprintf("op %d %s went out as %x", i, o, wr.msg)) {
				return
			}
		}
		if ackN.Kind == xcbor.Uint && int64(ackN.Arg) > int64(w.outstanding) {
			if x.fail(fmt.Sprintf("C24:B:ack-exceeds-outstanding:prev=%s", prev),
				fmt.Sprintf("op %d %s acknowledged %d ids on the wire (%x) but only %d are outstanding (replied %d, acknowledged %d; round %d of session %d)", i, o, ackN.Arg, wr.msg, w.outstanding, w.replied, w.acked, w.rounds+1, sessions)) {
				return
			}
		}
		if int(ackN.Arg) == w.outstanding && w.outstanding > 0 {
			rec.Class("B:ack_equals_outstanding_nonzero")
		}
		if gotCall {
			x.fail("C24:B:return-before-reply", fmt.Sprintf("op %d %s returned (%v) before the raw client replied", i, o, r.err))
			return
		}
		if o.K < 0 && o.Blocking {
			// raw client ends the session: the inbound side restarts with an empty window
			rec.Class("B:done_then_new_session")
			old := server.ProtocolInstance()
			if err := h.peer.SendMsg(protoTxSubmission, false, xcbor.A(xcbor.U(4)).Encode()); err != nil {
				rt.Fatalf("op %d %s: send Done: %v (server errs %v)", i, o, err, h.errs.list())
			}
			select {
			case r = <-ch:
			case <-time.After(callWait):
				rt.Fatalf("op %d %s: RequestTxIds did not return after Done\n%s", i, o, goroutineDump())
			}
			if r.err == nil {
				rt.Fatalf("op %d %s: RequestTxIds returned ids after Done", i, o)
			}
			// wait for the restart (a new protocol instance is installed), then re-Init
			deadline := time.Now().Add(callWait)
			for sv.doneCount() < sessions && time.Now().Before(deadline) {
				time.Sleep(time.Millisecond)
			}
			for server.ProtocolInstance() == old && time.Now().Before(deadline) {
				time.Sleep(time.Millisecond)
			}
			time.Sleep(x.settle)
			if !sendInit(3 * time.Second) {
				rec.Class("B:restart_not_usable")
				x.cs["ended"] = fmt.Sprintf("restart after Done not usable (server errs %v)", h.errs.list())
				return
			}
			sessions++
			w = window{}
			prev = "new-session"
			continue
		}
		k := o.K
		if k < 0 {
			k = 0 // a raw client cannot end on a non-blocking request; answer empty
		}
		sent := idsFor(serial+1, k, o.Flav)
		override := int64(-1)
		if o.SizeBogus && k > 0 {
			override = 1 << 32
		}
		if err := h.peer.SendMsg(protoTxSubmission, false, replyTxIdsNode(sent, indef, override).Encode()); err != nil {
			rt.Fatalf("op %d %s: send reply: %v (server errs %v)", i, o, err, h.errs.list())
		}
		select {
		case r = <-ch:
		case <-time.After(replyWait(o)):
			rt.Fatalf("op %d %s: RequestTxIds did not return after the reply\n%s", i, o, goroutineDump())
		}
		if override >= 0 {
			// sizes beyond the 32-bit field: the reply cannot be represented; it must
			// not come back with wrapped sizes
			rec.Eval()
			rec.Class("B:reply_size_2^32")
			x.nt = true
			if r.err == nil {
				x.fail("C24:B:size-beyond-field-width-accepted", fmt.Sprintf("op %d %s: the reply carried size 2^32 for every id; RequestTxIds returned %d ids, first %s", i, o, len(r.ids), firstId(r.ids)))
			}
			x.cs["ended"] = "reply with sizes of 2^32 refused"
			return
		}
		if r.err != nil {
			rt.Fatalf("op %d %s: unexpected error %v (server errs %v)", i, o, r.err, h.errs.list())
		}
		if !sameIds(r.ids, sent) {
			if x.fail("C24:B:ids-differ-from-reply:prev="+prev, fmt.Sprintf("op %d %s: raw client replied %d ids (first %s); RequestTxIds returned %d (first %s)", i, o, k, firstId(sent), len(r.ids), firstId(r.ids))) {
				return
			}
		}
		if k <= 1000 {
			kept = append(kept, [2][]txsubmission.TxIdAndSize{r.ids, copyIds(r.ids)})
		}
		if o.Flav != "" {
			rec.Class("B:reply_flavour_" + o.Flav)
		}
		serial += uint64(k)
		w.observe(ackN.Arg, k)
		if k > 0 {
			rec.Class("B:round_with_ids")
		}
		if k >= 65535 {
			rec.Class(fmt.Sprintf("B:reply_of_%d_ids", k))
		}
		prev = "ids"
	}
	// nothing else may be on the wire
	if rest := h.peer.Stream(protoTxSubmission, true); len(rest) != 0 {
		x.fail("C24:B:extra-bytes-on-wire", fmt.Sprintf("after the history %d unexpected bytes were on the wire: %x", len(rest), rest))
		return
	}
	if sessions > 1 {
		rec.Class("B:history_with_restart")
	}
	x.cs["ended"] = "history complete"
}

// ---- family C: raw server, real client ----------------------------------------------------

type wireVal struct {
	node *xcbor.Node
	txt  string
	ok   bool // within 0..65535
	v    int
}

var c24BogusVals = []string{"65536", "65537", "70000", "131071", "4294967295", "4294967296", "18446744073709551615", "-1", "-2", "-65536", "-18446744073709551616"}

func bogusNode(s string) *xcbor.Node {
	switch s {
	case "65536":
		return xcbor.U(65536)
	case "65537":
		return xcbor.U(65537)
	case "70000":
		return xcbor.U(70000)
	case "131071":
		return xcbor.U(131071)
	case "4294967295":
		return xcbor.U(4294967295)
	case "4294967296":
		return xcbor.U(4294967296)
	case "18446744073709551615":
		return xcbor.U(math.MaxUint64)
	case "-1":
		return xcbor.NegArg(0)
	case "-2":
		return xcbor.NegArg(1)
	case "-65536":
		return xcbor.NegArg(65535)
	case "-18446744073709551616":
		return xcbor.NegArg(math.MaxUint64)
	}
	panic("unknown bogus value " + s)
}

func widen(n *xcbor.Node, width int) *xcbor.Node {
	// only widen (a narrower width cannot hold the argument)
	min := 0
	switch {
	case n.Arg >= 1<<32:
		min = 8
	case n.Arg >= 1<<16:
		min = 4
	case n.Arg >= 1<<8:
		min = 2
	case n.Arg >= 24:
		min = 1
	}
	if width > min {
		c := *n
		c.Width = width
		return &c
	}
	return n
}

func genWireOps(rt *rapid.T, maxOps int) []c24Op {
	n := rapid.IntRange(1, maxOps).Draw(rt, "n_ops")
	var ops []c24Op
	for i := 0; i < n; i++ {
		o := c24Op{Kind: "wire", Blocking: rapid.Bool().Draw(rt, "blocking")}
		c := rapid.IntRange(0, 99).Draw(rt, "wire_class")
		switch {
		case c < 40 || (i < n-1 && c < 60):
			o.Class = "valid"
			o.Req = fmt.Sprint(rapid.SampledFrom([]int{0, 1, 2, 3, 5, 10, 255, 256, 65534, 65535}).Draw(rt, "req"))
			o.Ack = "full" // resolved against the model when played: 0..outstanding
			o.K = rapid.IntRange(0, 20).Draw(rt, "k")
			o.Flav = rapid.SampledFrom([]string{"", "", "zeros", "dups", "sizes"}).Draw(rt, "flav")
			o.NilEmpty = o.K == 0 && rapid.Bool().Draw(rt, "nil_empty")
			switch rapid.IntRange(0, 11).Draw(rt, "stop") {
			case 0:
				o.K = -1
			case 1:
				o.K = -2
			}
			if rapid.IntRange(0, 4).Draw(rt, "widen") == 0 {
				o.WidthA = rapid.SampledFrom([]int{1, 2, 4, 8}).Draw(rt, "wa")
				o.WidthR = rapid.SampledFrom([]int{0, 1, 2, 4, 8}).Draw(rt, "wr")
			}
		case c < 78:
			o.Class = "bogus-ack"
			o.Ack = rapid.SampledFrom(c24BogusVals).Draw(rt, "ack")
			o.Req = fmt.Sprint(rapid.IntRange(0, 10).Draw(rt, "req"))
		case c < 92:
			o.Class = "bogus-req"
			o.Req = rapid.SampledFrom(c24BogusVals).Draw(rt, "req")
			o.Ack = "0"
		case c < 96:
			o.Class = "bogus-both"
			o.Req = rapid.SampledFrom(c24BogusVals).Draw(rt, "req")
			o.Ack = rapid.SampledFrom(c24BogusVals).Draw(rt, "ack")
		default:
			o.Class = "over-ack" // within 0..65535 but more than outstanding: measured, not judged
			o.Req = "1"
			o.Ack = "over"
			o.K = 1
		}
		ops = append(ops, o)
		if o.Class != "valid" || o.K < 0 {
			break // the session is expected to end here
		}
	}
	return ops
}

func c24RawServer(x *c24Ctx, ops []c24Op) {
	rec, rt := x.rec, x.tb
	cl := &c24Client{}
	ccfg := cl.config()
	planA, planB := x.planA, x.planB
	x.cs["plans"] = planDesc(planA) + " | " + planDesc(planB)
	h, err := dialRaw(true, planA, planB, ouroboros.WithTxSubmissionConfig(ccfg))
	if err != nil {
		rt.Fatalf("setup: %v", err)
	}
	defer h.close()
	h.oc.TxSubmission().Client.Init()
	if msg, err := h.peer.NextMsg(protoTxSubmission, false, setupWait); err != nil || len(msg) != 2 || msg[0] != 0x81 || msg[1] != 0x06 {
		rt.Fatalf("setup: expected MsgInit from the client, got %x err=%v", msg, err)
	}
	var w window
	for i, o := range ops {
		x.cs["failed_at_op"] = i
		before := len(cl.entries())
		var ackN, reqN *xcbor.Node
		ackV, reqV := -1, -1
		switch o.Ack {
		case "full":
			ackV = w.outstanding
			if ackV > 65535 {
				ackV = 65535
			}
			if ackV > 0 && i%2 == 1 {
				ackV = ackV / 2 // partial acknowledgement
			}
			ackN = xcbor.U(uint64(ackV))
		case "over":
			ackV = w.outstanding + 1 + i
			ackN = xcbor.U(uint64(ackV))
		case "0":
			ackV = 0
			ackN = xcbor.U(0)
		default:
			ackN = bogusNode(o.Ack)
		}
		if o.Class == "bogus-req" || o.Class == "bogus-both" {
			reqN = bogusNode(o.Req)
		} else {
			fmt.Sscan(o.Req, &reqV)
			reqN = xcbor.U(uint64(reqV))
		}
		if o.WidthA > 0 {
			ackN = widen(ackN, o.WidthA)
		}
		if o.WidthR > 0 {
			reqN = widen(reqN, o.WidthR)
		}
		nonMinimal := !ackN.IsCanonicalForm() || !reqN.IsCanonicalForm()
		msg := xcbor.A(xcbor.U(0), xcbor.Bool(o.Blocking), ackN, reqN).Encode()
		x.cs["wire_msg"] = fmt.Sprintf("%x", msg)
		cl.setPlanOp(o)
		if err := h.peer.SendMsg(protoTxSubmission, true, msg); err != nil {
			rt.Fatalf("send: %v", err)
		}
		// outcome: a reply message from the client, or the connection ends
		reply, rerr := h.peer.NextMsg(protoTxSubmission, false, callWait)
		closed := rerr != nil && !strings.Contains(rerr.Error(), "timeout")
		if rerr != nil && !closed {
			// no answer and still open
			if len(cl.entries()) == before {
				rec.Class("C:no_answer_connection_open")
				rec.Eval()
				x.cs["ended"] = "no answer within the bound, connection still open, callback not invoked (counted, see C15)"
				return
			}
			rt.Fatalf("op %d %s: callback ran but no reply within %s\n%s", i, o, callWait, goroutineDump())
		}
		ents := cl.entries()[before:]
		rec.Eval()
		if o.Class != "valid" || o.K < 0 || w.replied > 0 {
			x.nt = true
		}
		switch o.Class {
		case "bogus-ack", "bogus-req", "bogus-both":
			rec.Class("C:" + o.Class)
			if len(ents) > 0 {
				x.fail(fmt.Sprintf("C24:C:client-accepts-out-of-range:%s:ack=%s:req=%s", o.Class, o.Ack, o.Req),
					fmt.Sprintf("op %d %s (wire %x): the outbound side's callback ran with blocking=%v ack=%d req=%d", i, o, msg, ents[0].Blocking, ents[0].Ack, ents[0].Req))
				return
			}
			if !closed {
				x.fail(fmt.Sprintf("C24:C:client-answers-out-of-range:%s:ack=%s:req=%s", o.Class, o.Ack, o.Req),
					fmt.Sprintf("op %d %s (wire %x): the outbound side answered %x", i, o, msg, reply))
				return
			}
			rec.Class("C:bogus_rejected_connection_closed")
			x.cs["ended"] = "out-of-range request rejected"
			return
		case "over-ack":
			if len(ents) > 0 {
				rec.Class("C:over_ack_within_uint16_accepted_by_client")
			} else {
				rec.Class("C:over_ack_within_uint16_rejected_by_client")
			}
			x.cs["ended"] = "over-ack request (measured only)"
			return
		}
		// valid request
		rec.Class("C:valid")
		if len(ents) == 0 {
			if closed && nonMinimal {
				rec.Class("C:valid_nonminimal_rejected")
				x.cs["ended"] = "valid counts in non-minimal encoding rejected (allowed)"
				return
			}
			rt.Fatalf("op %d %s (wire %x): valid request not delivered to the callback (closed=%v, errs %v)", i, o, msg, closed, h.errs.list())
		}
		if nonMinimal {
			rec.Class("C:valid_nonminimal_accepted")
		}
		e := ents[0]
		if len(ents) > 1 || e.Blocking != o.Blocking || int(e.Ack) != ackV || int(e.Req) != reqV {
			x.fail("C24:C:callback-differs-from-wire", fmt.Sprintf("op %d %s (wire %x): callback saw %+v", i, o, msg, ents))
			return
		}
		if o.K < 0 {
			// stop sentinel
			isDone := len(reply) == 2 && reply[0] == 0x81 && reply[1] == 0x04
			if o.Blocking && o.K == -2 {
				rec.Class("C:callback_error_on_blocking")
				x.cs["ended"] = "callback error on a blocking request (any ending is allowed)"
				return
			}
			if o.K == -2 {
				rec.Class("C:callback_error_on_nonblocking")
			}
			if o.Blocking {
				rec.Class("C:stop_on_blocking")
				if !isDone {
					rt.Fatalf("op %d %s: stop on a blocking request did not produce Done (reply %x closed=%v)", i, o, reply, closed)
				}
				x.cs["ended"] = "Done after blocking request"
				return
			}
			rec.Class("C:stop_on_nonblocking")
			all := append(append([]byte(nil), reply...), h.peer.Stream(protoTxSubmission, false)...)
			if isDone || containsDone(all) {
				x.fail("C24:C:done-on-nonblocking", fmt.Sprintf("op %d %s (wire %x): the outbound side sent %x in answer to a non-blocking request", i, o, msg, all))
				return
			}
			if !closed {
				x.fail("C24:C:reply-after-refused-stop", fmt.Sprintf("op %d %s: the outbound side answered %x although its callback asked to stop", i, o, reply))
				return
			}
			// wait for the connection to end and look again
			h.peer.WaitClosed(callWait)
			if containsDone(h.peer.Stream(protoTxSubmission, false)) {
				x.fail("C24:C:done-on-nonblocking", fmt.Sprintf("op %d %s: Done on the wire after a non-blocking request", i, o))
			}
			x.cs["ended"] = "stop on non-blocking request: no Done, connection closed"
			return
		}
		if closed {
			rt.Fatalf("op %d %s: connection ended instead of a reply (errs %v)", i, o, h.errs.list())
		}
		rn, perr := xcbor.ParseExact(reply)
		if perr != nil || rn.Kind != xcbor.Array || len(rn.Items) != 2 || rn.Items[0].Arg != 1 || rn.Items[1].Kind != xcbor.Array {
			rt.Fatalf("op %d %s: unexpected reply %x", i, o, reply)
		}
		if len(rn.Items[1].Items) != e.NumReplied {
			rt.Fatalf("op %d %s: reply carries %d ids, callback returned %d", i, o, len(rn.Items[1].Items), e.NumReplied)
		}
		// the reply on the wire is what the callback returned (all-zero ids, duplicates,
		// sizes 0 and 2^32-1, nil slice included)
		rec.Eval()
		for j, it := range rn.Items[1].Items {
			want := e.Ids[j]
			ok := it.Kind == xcbor.Array && len(it.Items) == 2 && it.Items[0].Kind == xcbor.Array && len(it.Items[0].Items) == 2 &&
				it.Items[0].Items[0].Kind == xcbor.Uint && it.Items[0].Items[0].Arg == uint64(want.TxId.EraId) &&
				bytes.Equal(it.Items[0].Items[1].Payload(), want.TxId.TxId[:]) &&
				it.Items[1].Kind == xcbor.Uint && it.Items[1].Arg == uint64(want.Size)
			if !ok {
				x.fail("C24:C:wire-reply-differs-from-callback", fmt.Sprintf("op %d %s: id %d of the reply on the wire (%x) is not what the callback returned (%s)", i, o, j, reply[:min(len(reply), 120)], firstId(e.Ids[j:])))
				return
			}
		}
		if o.Flav != "" {
			rec.Class("C:reply_flavour_" + o.Flav)
		}
		cl.scribble()
		w.observe(uint64(ackV), e.NumReplied)
	}
	x.cs["ended"] = "history complete"
}

func containsDone(stream []byte) bool {
	for len(stream) > 0 {
		n, used, err := xcbor.Parse(stream)
		if err != nil {
			return false
		}
		if n.Kind == xcbor.Array && len(n.Items) == 1 && n.Items[0].Kind == xcbor.Uint && n.Items[0].Arg == 4 {
			return true
		}
		stream = stream[used:]
	}
	return false
}

// ---- the check --------------------------------------------------------------------------

func TestC24(t *testing.T) {
	limitShrinkTime()
	rec := evi.New(t, "C24", evi.Exploration,
		"histories of tx-submission rounds drawn by rapid in three families: A real Server <-> real Client over two ouroboros.Connection objects (observed at the client's RequestTxIds callback), B real Server <-> raw harness client (every MsgRequestTxIds parsed from the wire with the independent CBOR parser; Done + re-Init restarts a session), C raw harness server -> real Client (wire integers outside 0..65535, negative, non-minimal heads, stop sentinel on blocking / non-blocking requests). Requests use n from {0..12, 255, 256, 32768, 65534, 65535, any in range, 65536, 65537, 70000, 2^31, MaxInt64, -1, -2, -65535, -65536, MinInt64}; replies carry 0..600 ids (more or fewer than requested), 65534..70000 ids at low rate, or the stop sentinel. Oracle: reference window outstanding = Σ replied − Σ acknowledged per session; on every observed request 0 <= ack <= outstanding, ack,req <= 65535, req/blocking as called; out-of-range API calls fail and put nothing on the wire; out-of-range wire requests never reach the client's callback; Done only after a blocking request. Non-trivial = history with >= 2 observed requests of which an earlier one was answered with >= 1 id, or containing an out-of-range value, or a stop; distinct by (family, op list)")
	defer rec.Finish()
	rec.Assume(
		"the harness segment framing and CBOR parser (internal/rawpeer, internal/xcbor) are correct",
		"ack <= outstanding is judged per protocol session: MsgDone followed by a new MsgInit starts an empty window (the server restarts its protocol instance)",
		"a client that receives an acknowledgement larger than what is outstanding but within 0..65535 is only measured (the statement's limits for the outbound side are read as the 0..65535 range)",
		"a backlog above 65535 ids (the outbound side replied more than 65535 ids at once) may make every further RequestTxIds fail: allowed, nothing is put on the wire",
	)
	maxOps := rec.Pick(10, 16)
	c24Sweep(t, rec)
	rec.Check(func(rt *rapid.T) {
		fam := rapid.SampledFrom([]string{"A", "A", "A", "B", "B", "B", "C", "C"}).Draw(rt, "family")
		x := &c24Ctx{rec: rec, tb: rt, cs: map[string]any{"family": fam}}
		if fam == "C" {
			x.planA, x.planB = genPlan(rt, "a"), genPlan(rt, "b")
		} else {
			x.planA, x.planB = bigSafePlan(rt, "a"), bigSafePlan(rt, "b")
			x.indef = rapid.Bool().Draw(rt, "reply_indef")
		}
		x.settle = time.Duration(rapid.SampledFrom([]int{0, 50, 500, 5000, 20000}).Draw(rt, "settle_us")) * time.Microsecond
		x.cs["settle"] = x.settle.String()
		var ops []c24Op
		if fam == "C" {
			ops = genWireOps(rt, 6)
		} else {
			allowBig := rapid.IntRange(0, rec.Pick(11, 5)).Draw(rt, "allow_big") == 0
			if rapid.IntRange(0, 5).Draw(rt, "restart_storm") == 0 {
				// many short sessions on one connection: every Done restarts the
				// server's protocol instance
				ops = genStorm(rt)
				x.settle = time.Duration(rapid.SampledFrom([]int{0, 0, 20, 200}).Draw(rt, "storm_settle_us")) * time.Microsecond
				x.cs["settle"] = x.settle.String()
				rec.Class("restart_storm_" + fam)
			} else {
				ops = genOps(rt, maxOps, allowBig)
			}
		}
		x.cs["ops"] = ops
		desc := fam + ": " + opsDesc(ops)
		x.cs["history"] = desc
		rec.Class("family_" + fam)
		t0 := time.Now()
		defer func() {
			if os.Getenv("VERIF_DEBUG") != "" {
				fmt.Fprintf(os.Stderr, "C24 %s %.2fs ended=%v\n", desc, time.Since(t0).Seconds(), x.cs["ended"])
			}
		}()
		switch fam {
		case "A":
			c24RealReal(x, ops)
		case "B":
			c24RawClient(x, ops)
		default:
			c24RawServer(x, ops)
		}
		if x.nt {
			rec.NonTrivial(desc, map[string]any{"history": desc, "ended": x.cs["ended"]})
		}
	})
}

// c24Sweep is the deterministic part: the special values of every count, of
// the reply contents and every failure step are played once per run, each
// followed by more traffic, independent of the seed.
func c24Sweep(t *testing.T, rec *evi.Recorder) {
	ids := func(b bool, n, k int, flav string) c24Op {
		return c24Op{Kind: "ids", Blocking: b, N: n, K: k, Flav: flav}
	}
	// real server, observed by the real client (A) and on the wire (B): one
	// connection, several sessions
	var ops []c24Op
	for _, n := range []int{0, 1, 2, 65534, 65535} {
		ops = append(ops, ids(false, n, 3, ""), ids(true, n, 1, ""))
	}
	for _, n := range []int{65536, 65537, 70000, 1 << 31, math.MaxInt64, -1, -2, -65535, -65536, math.MinInt64} {
		ops = append(ops, ids(n%2 == 0, n, 0, ""), ids(false, 1, 2, ""))
	}
	ops = append(ops,
		ids(false, 3, 3, "zeros"), ids(true, 3, 3, "dups"), ids(false, 3, 3, "sizes"), ids(false, 5, 0, ""),
		c24Op{Kind: "ids", N: 5, K: 0, NilEmpty: true}, ids(true, 5, 0, ""), c24Op{Kind: "txs", TxsN: 3}, c24Op{Kind: "txs", TxsN: 0},
		ids(false, 2, 2, ""), ids(true, 1, -1, ""), // Done with 2 ids outstanding, new session
		ids(false, 4, 4, ""), ids(true, 1, -1, ""), // Done right after a reply of 4
		ids(true, 1, -1, ""), // Done as the first answer of a session
		ids(false, 1, 1, ""), ids(false, 1, 1, ""))
	for _, fam := range []string{"A", "B"} {
		for _, indef := range []bool{false, true} {
			x := &c24Ctx{rec: rec, tb: t, sweep: true, indef: indef, settle: 200 * time.Microsecond,
				cs: map[string]any{"family": fam, "sweep": true, "history": fam + " sweep: " + opsDesc(ops)}}
			if fam == "A" {
				if indef {
					continue
				}
				c24RealReal(x, ops)
			} else {
				c24RawClient(x, ops)
			}
			rec.Class("sweep_" + fam)
			rec.NonTrivial(fmt.Sprintf("sweep %s indef=%v", fam, indef), map[string]any{"history": fam + " sweep (" + fmt.Sprint(len(ops)) + " ops)", "ended": x.cs["ended"]})
		}
	}
	// endings that kill the connection: one fresh connection each, after two answered rounds
	pre := []c24Op{ids(false, 2, 2, ""), ids(false, 2, 1, "")}
	for _, last := range []c24Op{
		ids(false, 1, -1, ""), ids(false, 1, -2, ""), ids(true, 1, -2, ""),
		{Kind: "ids", N: 2, K: 2, SizeBogus: true},
	} {
		for _, fam := range []string{"A", "B"} {
			if (fam == "A") == last.SizeBogus {
				continue
			}
			h := append(append([]c24Op(nil), pre...), last)
			x := &c24Ctx{rec: rec, tb: t, sweep: true, cs: map[string]any{"family": fam, "sweep": true, "history": fam + " sweep: " + opsDesc(h)}}
			if fam == "A" {
				c24RealReal(x, h)
			} else {
				c24RawClient(x, h)
			}
			rec.NonTrivial("sweep "+fam+" "+opsDesc(h), nil)
		}
	}
	// raw server -> real client: every out-of-range wire value in either field,
	// and every way the callback can refuse, after one answered round
	wire := func(class, ack, req string, b bool, k int) c24Op {
		return c24Op{Kind: "wire", Class: class, Ack: ack, Req: req, Blocking: b, K: k}
	}
	first := wire("valid", "full", "3", false, 2)
	var lasts []c24Op
	for _, v := range c24BogusVals {
		lasts = append(lasts, wire("bogus-ack", v, "1", false, 0), wire("bogus-req", "0", v, true, 0))
	}
	lasts = append(lasts, wire("bogus-both", "65536", "65536", false, 0),
		wire("valid", "full", "1", false, -1), wire("valid", "full", "1", true, -1),
		wire("valid", "full", "1", false, -2), wire("valid", "full", "1", true, -2),
		wire("valid", "full", "0", false, 0), wire("valid", "full", "65535", true, 3), wire("over-ack", "over", "1", false, 1))
	for _, last := range lasts {
		h := []c24Op{first, last}
		x := &c24Ctx{rec: rec, tb: t, sweep: true, cs: map[string]any{"family": "C", "sweep": true, "history": "C sweep: " + opsDesc(h)}}
		c24RawServer(x, h)
		rec.NonTrivial("sweep C "+opsDesc(h), nil)
	}
	rec.Class("sweep_C")
}

var _ = errors.Is
