package reqresp

import (
	"encoding/binary"
	"math"
	"errors"
	"fmt"
	"net"
	"strings"
	"sync"
	"time"

	"github.com/blinklabs-io/gouroboros/cbor"
	"github.com/blinklabs-io/gouroboros/ledger"
	"github.com/blinklabs-io/gouroboros/protocol"
	"github.com/blinklabs-io/gouroboros/protocol/localstatequery"
	"github.com/blinklabs-io/gouroboros/protocol/localtxmonitor"
	"github.com/blinklabs-io/gouroboros/protocol/localtxsubmission"
	"github.com/blinklabs-io/gouroboros/protocol/peersharing"
	"golang.org/x/crypto/blake2b"

	"verif/harness/internal/fixtures"
	"verif/harness/internal/rawpeer"
	"verif/harness/internal/xcbor"
)

// srvEvent is one entry of the server-side log of a case: the request the
// server-side callback (or message handler) saw, stamped with the logical time.
type srvEvent struct {
	Serial int64  `json:"serial"` // stamp embedded in the reply (0: the reply has no room for one)
	Proto  string `json:"proto"`
	Kind   string `json:"kind"`
	T      int64  `json:"t"`
	Arg    int64  `json:"arg,omitempty"` // lsq: era of a shelley query / slot of an acquire; ltxsub: tx tag; psh: amount
	OK     bool   `json:"ok"`            // acquire succeeded / tx accepted
	// tx-monitor trajectory (filled by the reference model)
	// local-state-query queries: what the server had acquired when it answered
	// (slot of a specific point, -1 volatile tip, -2 immutable tip, 0 nothing)
	Pt   int64 `json:"pt,omitempty"`
	Snap int64 `json:"snap,omitempty"`
	Idx  int   `json:"idx,omitempty"`
	used bool
}

// srvLog is shared by all server-side callbacks of one case.
type srvLog struct {
	clk    *lclock
	mu     sync.Mutex
	serial int64
	events []*srvEvent
	// base is added to the serial wherever the stamp is an integer of the
	// local-state-query results (special values: beyond the era table, 2^16, 2^31,
	// 2^32, 2^53, 2^62 neighbourhoods); top counts chain-point slots down from 2^64-1
	base int64
	top  bool
	// slowKind: the first local-state-query query of that kind is answered only
	// after slowDelay (longer than the client's query timeout of that history)
	slowKind  string
	slowDelay time.Duration
	slowDone  bool
	curPt     int64 // server-side view of the acquired local-state-query point
}

const (
	ptNone      = 0
	ptVolatile  = -1
	ptImmutable = -2
)

func (l *srvLog) stamp(kind string, serial int64) uint64 {
	if kind == "point" && l.top {
		return math.MaxUint64 - uint64(serial)
	}
	return uint64(l.base + serial)
}

func (l *srvLog) unstamp(kind string, v uint64) int64 {
	if kind == "point" && l.top {
		return int64(math.MaxUint64 - v)
	}
	return int64(v) - l.base
}

// takeSlow reports (once) that the query of this kind is the slow one.
func (l *srvLog) takeSlow(kind string) time.Duration {
	l.mu.Lock()
	defer l.mu.Unlock()
	if l.slowKind == "" || l.slowDone || kind != l.slowKind {
		return 0
	}
	l.slowDone = true
	return l.slowDelay
}

func (l *srvLog) add(proto, kind string, stamped bool, arg int64, ok bool) *srvEvent {
	l.mu.Lock()
	defer l.mu.Unlock()
	e := &srvEvent{Proto: proto, Kind: kind, Arg: arg, OK: ok}
	if stamped {
		l.serial++
		e.Serial = l.serial
	}
	e.T = l.clk.tick()
	if proto == "lsq" {
		switch {
		case kind == "release":
			l.curPt = ptNone
		case strings.HasPrefix(kind, "acquire") || strings.HasPrefix(kind, "reacquire"):
			switch {
			case !ok:
				l.curPt = ptNone // a refused (re-)acquire leaves the protocol idle
			case strings.HasSuffix(kind, "V"):
				l.curPt = ptVolatile
			case strings.HasSuffix(kind, "I"):
				l.curPt = ptImmutable
			default:
				l.curPt = arg
			}
		default:
			e.Pt = l.curPt
		}
	}
	l.events = append(l.events, e)
	return e
}

func (l *srvLog) snapshot() []*srvEvent {
	l.mu.Lock()
	defer l.mu.Unlock()
	return append([]*srvEvent(nil), l.events...)
}

// ---- local-state-query server ----------------------------------------------------------

// acquire flavours are encoded in the first hash byte of a specific point
const (
	flavOK = iota
	flavTooOld
	flavNotOnChain
)

func lsqPointHash(flav int, slot uint64) []byte {
	h := make([]byte, 32)
	h[0] = byte(flav)
	binary.BigEndian.PutUint64(h[1:9], slot)
	return h
}

func raw(n *xcbor.Node) cbor.RawMessage { return cbor.RawMessage(n.Encode()) }

// lsqResult builds the result of a query of the given kind stamped with serial
// s, in the shape the client API decodes (shapes read off the result types in
// protocol/localstatequery/queries.go).
func lsqResult(kind string, stamp uint64, s int64) *xcbor.Node {
	u := xcbor.U(stamp)
	switch kind {
	case "era":
		return u
	case "start":
		return xcbor.A(u, xcbor.U(uint64(s%366)), xcbor.U(uint64(s*7)))
	case "blockno":
		return xcbor.A(xcbor.U(1), u)
	case "point":
		return xcbor.A(u, xcbor.B(lsqPointHash(9, uint64(s))))
	case "epoch":
		return xcbor.A(u)
	case "history":
		be := func(v uint64) *xcbor.Node { return xcbor.A(xcbor.U(v), xcbor.U(v), xcbor.U(v)) }
		params := xcbor.A(xcbor.U(432000), xcbor.U(1000), xcbor.A(xcbor.U(0), xcbor.U(129600), xcbor.A(xcbor.U(0))), xcbor.U(2160))
		return xcbor.A(xcbor.A(be(stamp), be(stamp+1), params))
	}
	panic("lsqResult: " + kind)
}

func lsqQueryKind(q localstatequery.QueryWrapper) (string, int64) {
	switch t := q.Query.(type) {
	case *localstatequery.SystemStartQuery:
		return "start", 0
	case *localstatequery.ChainBlockNoQuery:
		return "blockno", 0
	case *localstatequery.ChainPointQuery:
		return "point", 0
	case *localstatequery.BlockQuery:
		switch b := t.Query.(type) {
		case *localstatequery.HardForkQuery:
			switch b.Query.(type) {
			case *localstatequery.HardForkCurrentEraQuery:
				return "era", 0
			case *localstatequery.HardForkEraHistoryQuery:
				return "history", 0
			}
		case *localstatequery.ShelleyQuery:
			switch b.Query.(type) {
			case *localstatequery.ShelleyEpochNoQuery:
				return "epoch", int64(b.Era)
			}
		}
	}
	return fmt.Sprintf("unknown(%T)", q.Query), 0
}

func lsqServerConfig(l *srvLog) localstatequery.Config {
	return localstatequery.NewConfig(
		localstatequery.WithAcquireFunc(func(_ localstatequery.CallbackContext, target localstatequery.AcquireTarget, re bool) error {
			kind := "acquire"
			if re {
				kind = "reacquire"
			}
			switch t := target.(type) {
			case localstatequery.AcquireVolatileTip:
				l.add("lsq", kind+"V", false, 0, true)
			case localstatequery.AcquireImmutableTip:
				l.add("lsq", kind+"I", false, 0, true)
			case localstatequery.AcquireSpecificPoint:
				flav := flavOK
				if len(t.Point.Hash) > 0 {
					flav = int(t.Point.Hash[0])
				}
				l.add("lsq", kind+"P", false, int64(t.Point.Slot), flav == flavOK)
				switch flav {
				case flavTooOld:
					return localstatequery.ErrAcquireFailurePointTooOld
				case flavNotOnChain:
					return localstatequery.ErrAcquireFailurePointNotOnChain
				}
			default:
				l.add("lsq", kind+"?", false, 0, true)
			}
			return nil
		}),
		localstatequery.WithQueryFunc(func(_ localstatequery.CallbackContext, q localstatequery.QueryWrapper) (any, error) {
			kind, era := lsqQueryKind(q)
			e := l.add("lsq", kind, true, era, true)
			if d := l.takeSlow(kind); d > 0 {
				time.Sleep(d)
			}
			switch kind {
			case "era", "start", "blockno", "point", "epoch", "history":
				return raw(lsqResult(kind, l.stamp(kind, e.Serial), e.Serial)), nil
			}
			return nil, errors.New("harness server: unexpected query " + kind)
		}),
		localstatequery.WithReleaseFunc(func(localstatequery.CallbackContext) error {
			l.add("lsq", "release", false, 0, true)
			return nil
		}),
	)
}

// ---- local-tx-monitor server -----------------------------------------------------------

// txPool derives unique, decodable Conway transactions from a fixture
// transaction by rewriting the fee. Transaction (s, i) is the i-th entry of the
// mempool snapshot with serial s; snapshot s holds s%4 transactions.
type txPool struct {
	mu    sync.Mutex
	body  *xcbor.Node
	wits  *xcbor.Node
	cache map[[2]int64]*poolTx
}

type poolTx struct {
	Bytes []byte
	Hash  []byte // blake2b-256 of the body bytes (independent of the library)
}

const conwayEra = 6

var (
	poolOnce sync.Once
	thePool  *txPool
	poolErr  error
)

func pool() *txPool {
	poolOnce.Do(func() {
		blk := fixtures.ByName("conway").Bytes
		n, err := xcbor.ParseExact(blk)
		if err != nil || n.Kind != xcbor.Array || len(n.Items) < 3 {
			poolErr = fmt.Errorf("conway fixture: %v", err)
			return
		}
		bodies, wits := n.Items[1], n.Items[2]
		best := -1
		for i := range bodies.Items {
			if bodies.Items[i].Kind != xcbor.Map || bodies.Items[i].MapGet(2) == nil {
				continue
			}
			sz := bodies.Items[i].End - bodies.Items[i].Start + wits.Items[i].End - wits.Items[i].Start
			if best < 0 || sz < bodies.Items[best].End-bodies.Items[best].Start+wits.Items[best].End-wits.Items[best].Start {
				best = i
			}
		}
		if best < 0 {
			poolErr = errors.New("conway fixture: no usable transaction")
			return
		}
		thePool = &txPool{body: bodies.Items[best], wits: wits.Items[best], cache: map[[2]int64]*poolTx{}}
		// sanity: the derived transactions decode, and the library's hash is the
		// blake2b-256 of the body bytes (precondition of the HasTx oracle)
		for s := int64(1); s <= 3; s++ {
			tx := thePool.tx(s, 0)
			obj, err := ledger.NewTransactionFromCbor(conwayEra, tx.Bytes)
			if err != nil {
				poolErr = fmt.Errorf("derived transaction does not decode: %w", err)
				return
			}
			if obj.Hash().String() != fmt.Sprintf("%x", tx.Hash) {
				poolErr = fmt.Errorf("derived transaction: library hash %s != blake2b-256(body) %x", obj.Hash().String(), tx.Hash)
				return
			}
		}
	})
	if poolErr != nil {
		panic(poolErr)
	}
	return thePool
}

func snapLen(s int64) int {
	if s <= 0 {
		return 0
	}
	return int(s % 4)
}

func (p *txPool) tx(s int64, i int) *poolTx {
	p.mu.Lock()
	defer p.mu.Unlock()
	k := [2]int64{s, int64(i)}
	if t, ok := p.cache[k]; ok {
		return t
	}
	body := p.body.Clone()
	body.MapSet(2, xcbor.U(uint64(1_000_000+s*8+int64(i))))
	bb := body.Encode()
	h := blake2b.Sum256(bb)
	txb := xcbor.A(xcbor.Raw(bb), xcbor.Raw(p.wits.Encode()), xcbor.Bool(true), xcbor.Null()).Encode()
	t := &poolTx{Bytes: txb, Hash: h[:]}
	p.cache[k] = t
	return t
}

// snapCapacity: the capacity stamps the snapshot; the two extreme values of the
// 32-bit field are part of the cycle.
func snapCapacity(s int64) uint32 {
	switch {
	case s%5 == 0:
		return math.MaxUint32
	case s%7 == 0:
		return 0
	}
	return uint32(100000 + s)
}

func txmonServerConfig(l *srvLog) localtxmonitor.Config {
	return localtxmonitor.NewConfig(
		localtxmonitor.WithGetMempoolFunc(func(localtxmonitor.CallbackContext) (uint64, uint32, []localtxmonitor.TxAndEraId, error) {
			e := l.add("txmon", "mempool", true, 0, true)
			n := snapLen(e.Serial)
			txs := make([]localtxmonitor.TxAndEraId, n)
			for i := range txs {
				txs[i] = localtxmonitor.TxAndEraId{EraId: conwayEra, Tx: pool().tx(e.Serial, i).Bytes}
			}
			return uint64(e.Serial), snapCapacity(e.Serial), txs, nil
		}),
	)
}

// txmonTrace turns tracer events of the tx-monitor server protocol into log
// entries (the server answers HasTx/NextTx/GetSizes without a callback).
func txmonTrace(l *srvLog, ev protocol.VerifEvent) {
	if ev.Kind != "handler" {
		return
	}
	switch ev.MsgType {
	case 1:
		l.add("txmon", "acquire", false, 0, true)
	case 3:
		l.add("txmon", "release", false, 0, true)
	case 5:
		l.add("txmon", "nexttx", false, 0, true)
	case 7:
		l.add("txmon", "hastx", false, 0, true)
	case 9:
		l.add("txmon", "sizes", false, 0, true)
	}
}

// ---- local-tx-submission server ----------------------------------------------------------

// a submitted "transaction" is an opaque blob: 8-byte tag, 1 decision byte
func ltxBlob(tag int64, accept bool) []byte {
	b := make([]byte, 10)
	b[0] = 0x49 // CBOR byte string of 9 bytes, so the blob is also well-formed CBOR
	binary.BigEndian.PutUint64(b[1:9], uint64(tag))
	if accept {
		b[9] = 1
	}
	return b
}

func ltxsubServerConfig(l *srvLog) localtxsubmission.Config {
	return localtxsubmission.NewConfig(
		localtxsubmission.WithSubmitTxFunc(func(_ localtxsubmission.CallbackContext, tx localtxsubmission.MsgSubmitTxTransaction) error {
			blob, _ := tx.Raw.Content.([]byte)
			if len(blob) != 10 {
				l.add("ltxsub", "submit", true, -1, false)
				return fmt.Errorf("harness server: unexpected tx payload %T %x", tx.Raw.Content, blob)
			}
			tag := int64(binary.BigEndian.Uint64(blob[1:9]))
			accept := blob[9] == 1
			e := l.add("ltxsub", "submit", true, tag, accept)
			if accept {
				return nil
			}
			return fmt.Errorf("rejected serial=%d tag=%d", e.Serial, tag)
		}),
	)
}

// pshCount is how many peers the harness server shares for a requested amount
// (0..3; an empty answer carries no stamp).
func pshCount(amount int) int { return amount % 4 }

// ---- peer-sharing server ---------------------------------------------------------------------

func pshServerConfig(l *srvLog) peersharing.Config {
	return peersharing.NewConfig(
		peersharing.WithShareRequestFunc(func(_ peersharing.CallbackContext, amount int) ([]peersharing.PeerAddress, error) {
			e := l.add("psh", "getpeers", true, int64(amount), true)
			n := pshCount(amount)
			out := make([]peersharing.PeerAddress, n)
			if n == 0 && amount%8 == 0 {
				out = nil // nil instead of an empty list
			}
			for i := range out {
				out[i] = peersharing.PeerAddress{
					IP:   net.IPv4(10, byte(e.Serial>>16), byte(e.Serial>>8), byte(e.Serial)),
					Port: uint16(1000 + amount + 256*i),
				}
			}
			return out, nil
		}),
	)
}

// ---- raw local-state-query server (harness side of the lsqraw family) -----------------------

// rawLsqServer answers local-state-query requests on the raw peer of h until
// stop is closed or the connection ends. Requests are parsed with the
// independent CBOR parser; every query result is stamped and logged exactly
// like the callbacks of the real server do.
func rawLsqServer(h *half, l *srvLog, stop chan struct{}) error {
	send := func(n *xcbor.Node) error { return h.peer.SendMsg(protoLocalStateQuery, true, n.Encode()) }
	acquire := func(kind string, pt *xcbor.Node) error {
		ok := true
		var slot int64
		flav := flavOK
		if pt != nil {
			if pt.Kind == xcbor.Array && len(pt.Items) == 2 {
				slot = int64(pt.Items[0].Arg)
				if len(pt.Items[1].Data) > 0 {
					flav = int(pt.Items[1].Data[0])
				}
			}
			ok = flav == flavOK
		}
		l.add("lsq", kind, false, slot, ok)
		switch flav {
		case flavTooOld:
			return send(xcbor.A(xcbor.U(2), xcbor.U(0)))
		case flavNotOnChain:
			return send(xcbor.A(xcbor.U(2), xcbor.U(1)))
		}
		return send(xcbor.A(xcbor.U(1)))
	}
	for {
		select {
		case <-stop:
			return nil
		default:
		}
		msg, err := h.peer.NextMsg(protoLocalStateQuery, false, 50*time.Millisecond)
		if err != nil {
			if errors.Is(err, rawpeer.ErrTimeout) {
				continue
			}
			return nil // connection ended
		}
		n, err := xcbor.ParseExact(msg)
		if err != nil || n.Kind != xcbor.Array || len(n.Items) == 0 {
			return fmt.Errorf("raw lsq server: unparsable request %x", msg)
		}
		switch n.Items[0].Arg {
		case 0:
			err = acquire("acquireP", n.Items[1])
		case 8:
			err = acquire("acquireV", nil)
		case 10:
			err = acquire("acquireI", nil)
		case 6:
			err = acquire("reacquireP", n.Items[1])
		case 9:
			err = acquire("reacquireV", nil)
		case 11:
			err = acquire("reacquireI", nil)
		case 5:
			l.add("lsq", "release", false, 0, true)
		case 7:
			return nil
		case 3:
			kind, era := rawQueryKind(n.Items[1])
			if kind == "" {
				return fmt.Errorf("raw lsq server: unknown query %x", msg)
			}
			e := l.add("lsq", kind, true, era, true)
			err = send(xcbor.A(xcbor.U(4), lsqResult(kind, l.stamp(kind, e.Serial), e.Serial)))
		default:
			return fmt.Errorf("raw lsq server: unexpected message %x", msg)
		}
		if err != nil {
			return nil
		}
	}
}

// rawQueryKind classifies a query by its wire form (ouroboros-consensus query
// encoding: [1] system start, [2] chain block no, [3] chain point,
// [0,[2,[1]]] current era, [0,[2,[0]]] era history, [0,[0,[era,[1]]]] epoch no).
func rawQueryKind(q *xcbor.Node) (string, int64) {
	if q.Kind != xcbor.Array || len(q.Items) == 0 {
		return "", 0
	}
	switch q.Items[0].Arg {
	case 1:
		return "start", 0
	case 2:
		return "blockno", 0
	case 3:
		return "point", 0
	case 0:
		if len(q.Items) < 2 || len(q.Items[1].Items) < 2 {
			return "", 0
		}
		b := q.Items[1]
		inner := b.Items[1]
		switch b.Items[0].Arg {
		case 2:
			if len(inner.Items) == 1 && inner.Items[0].Arg == 1 {
				return "era", 0
			}
			if len(inner.Items) == 1 && inner.Items[0].Arg == 0 {
				return "history", 0
			}
		case 0:
			if len(inner.Items) == 2 && len(inner.Items[1].Items) == 1 && inner.Items[1].Items[0].Arg == 1 {
				return "epoch", int64(inner.Items[0].Arg)
			}
		}
	}
	return "", 0
}
