package reqresp

import (
	"bytes"
	"fmt"
	"strings"
	"sync"
	"time"

	"pgregory.net/rapid"

	"verif/harness/internal/evi"
	"verif/harness/internal/xcbor"
)

// The adversarial family: a raw harness server answers the real clients. After
// 0..3 correct rounds it answers one request with a well-formed reply of a
// *different kind*. The call must not return that reply as its own answer.

type advStep struct {
	Proto string `json:"p"`    // txmon | lsq
	Call  string `json:"call"` // txmon: acquire hastx nexttx sizes; lsq: acquire era blockno
	Reply string `json:"reply"`
}

func (s advStep) String() string { return fmt.Sprintf("%s.%s<-%s", s.Proto, s.Call, s.Reply) }

var advReplies = map[string][]string{
	"txmon": {"acquired", "hastx", "nexttx", "nexttx-empty", "sizes"},
	"lsq":   {"acquired", "failure", "result"},
}

func rightReply(s advStep) string {
	switch s.Proto + "." + s.Call {
	case "txmon.acquire", "lsq.acquire":
		return "acquired"
	case "txmon.hastx":
		return "hastx"
	case "txmon.nexttx":
		return "nexttx"
	case "txmon.sizes":
		return "sizes"
	}
	return "result"
}

func isRight(s advStep) bool {
	r := rightReply(s)
	return s.Reply == r || (r == "nexttx" && s.Reply == "nexttx-empty")
}

// hangBudget limits how often a (call, reply) combination that was observed to
// hang is played again in this process (each costs the full bound and leaks
// the wedged goroutines).
var (
	hangMu     sync.Mutex
	hangSeen   = map[string]int{}
	hangBudget = 1
)

const advWait = 3 * time.Second

type advOutcome struct {
	Step    string `json:"step"`
	Outcome string `json:"outcome"` // own-reply | error | hang | returned-foreign-reply
	Detail  string `json:"detail,omitempty"`
}

func c25Adversarial(rec *evi.Recorder, rt *rapid.T) {
	proto := rapid.SampledFrom([]string{"txmon", "txmon", "lsq"}).Draw(rt, "adv_proto")
	calls := map[string][]string{"txmon": {"hastx", "nexttx", "sizes", "acquire"}, "lsq": {"era", "blockno", "acquire"}}[proto]
	nGood := rapid.IntRange(0, 3).Draw(rt, "adv_good_rounds")
	var steps []advStep
	for i := 0; i < nGood; i++ {
		s := advStep{Proto: proto, Call: rapid.SampledFrom(calls).Draw(rt, "adv_call")}
		s.Reply = rightReply(s)
		if s.Reply == "nexttx" && rapid.Bool().Draw(rt, "adv_empty") {
			s.Reply = "nexttx-empty"
		}
		steps = append(steps, s)
	}
	bad := advStep{Proto: proto, Call: rapid.SampledFrom(calls).Draw(rt, "adv_bad_call")}
	var wrong []string
	for _, r := range advReplies[proto] {
		c := bad
		c.Reply = r
		if !isRight(c) {
			wrong = append(wrong, r)
		}
	}
	bad.Reply = rapid.SampledFrom(wrong).Draw(rt, "adv_bad_reply")
	combo := bad.String()
	hangMu.Lock()
	over := hangSeen[combo] >= hangBudget
	hangMu.Unlock()
	if over {
		rec.Class("adv_hanging_combo_over_budget_skipped")
		return
	}
	steps = append(steps, bad)
	desc := "adv"
	for _, s := range steps {
		desc += " " + s.String()
	}
	planA, planB := genPlan(rt, "a"), genPlan(rt, "b")
	h, err := dialRaw(false, planA, planB)
	if err != nil {
		rt.Fatalf("setup: %v", err)
	}
	defer h.close()
	pid := protoLocalTxMonitor
	if proto == "lsq" {
		pid = protoLocalStateQuery
	}
	var outcomes []advOutcome
	cs := map[string]any{"desc": desc, "steps": steps}
	acquired := false
	serial := int64(0)
	// serve answers requests until the given step's own request has been answered
	nextReq := func() (*xcbor.Node, error) {
		msg, err := h.peer.NextMsg(pid, false, advWait)
		if err != nil {
			return nil, err
		}
		return xcbor.ParseExact(msg)
	}
	send := func(n *xcbor.Node) { _ = h.peer.SendMsg(pid, true, n.Encode()) }
	replyNode := func(kind string, s int64) *xcbor.Node {
		switch proto + "." + kind {
		case "txmon.acquired":
			return xcbor.A(xcbor.U(2), xcbor.U(uint64(s)))
		case "txmon.hastx":
			return xcbor.A(xcbor.U(8), xcbor.Bool(s%2 == 1))
		case "txmon.nexttx":
			return xcbor.A(xcbor.U(6), xcbor.A(xcbor.U(conwayEra), xcbor.Tg(24, xcbor.B(pool().tx(s, 0).Bytes))))
		case "txmon.nexttx-empty":
			return xcbor.A(xcbor.U(6))
		case "txmon.sizes":
			return xcbor.A(xcbor.U(10), xcbor.A(xcbor.U(uint64(snapCapacity(s))), xcbor.U(uint64(s)), xcbor.U(uint64(s%7))))
		case "lsq.acquired":
			return xcbor.A(xcbor.U(1))
		case "lsq.failure":
			return xcbor.A(xcbor.U(2), xcbor.U(0))
		case "lsq.result":
			return xcbor.A(xcbor.U(4), xcbor.U(uint64(s)))
		}
		panic("replyNode " + kind)
	}
	for si, st := range steps {
		last := si == len(steps)-1
		serial++
		s := serial
		type res struct {
			val string
			err error
		}
		ch := make(chan res, 1)
		go func() {
			var r res
			switch proto + "." + st.Call {
			case "txmon.acquire":
				r.err = h.oc.LocalTxMonitor().Client.Acquire()
				r.val = "acquired"
			case "txmon.hastx":
				v, err := h.oc.LocalTxMonitor().Client.HasTx(pool().tx(1, 0).Hash)
				r.val, r.err = fmt.Sprintf("hastx:%v", v), err
			case "txmon.nexttx":
				v, err := h.oc.LocalTxMonitor().Client.NextTx()
				r.val, r.err = fmt.Sprintf("nexttx:%x", v), err
			case "txmon.sizes":
				a, b, n, err := h.oc.LocalTxMonitor().Client.GetSizes()
				r.val, r.err = fmt.Sprintf("sizes:%d,%d,%d", a, b, n), err
			case "lsq.acquire":
				r.err = h.oc.LocalStateQuery().Client.AcquireVolatileTip()
				r.val = "acquired"
			case "lsq.era":
				v, err := h.oc.LocalStateQuery().Client.GetCurrentEra()
				r.val, r.err = fmt.Sprintf("result:%d", v), err
			case "lsq.blockno":
				v, err := h.oc.LocalStateQuery().Client.GetChainBlockNo()
				r.val, r.err = fmt.Sprintf("result:%d", v), err
			}
			ch <- r
		}()
		// the raw server: an implicit acquire first (answered correctly), then the request
		want := ""
		serveErr := ""
		for {
			req, err := nextReq()
			if err != nil {
				serveErr = err.Error()
				break
			}
			tag := req.Items[0].Arg
			isAcquire := (proto == "txmon" && tag == 1) || (proto == "lsq" && (tag == 8 || tag == 9 || tag == 0 || tag == 6 || tag == 10 || tag == 11))
			if isAcquire && st.Call != "acquire" {
				send(replyNode("acquired", s))
				acquired = true
				continue
			}
			// the request of this step
			var rn *xcbor.Node
			if proto == "lsq" && st.Reply == "result" && st.Call == "blockno" {
				rn = xcbor.A(xcbor.U(4), xcbor.A(xcbor.U(1), xcbor.U(uint64(s))))
			} else {
				rn = replyNode(st.Reply, s)
			}
			send(rn)
			if isRight(st) {
				switch st.Reply {
				case "acquired":
					want = "acquired"
					acquired = true
				case "hastx":
					want = fmt.Sprintf("hastx:%v", s%2 == 1)
				case "nexttx":
					want = fmt.Sprintf("nexttx:%x", pool().tx(s, 0).Bytes)
				case "nexttx-empty":
					want = "nexttx:"
				case "sizes":
					want = fmt.Sprintf("sizes:%d,%d,%d", snapCapacity(s), s, s%7)
				case "result":
					want = fmt.Sprintf("result:%d", s)
				}
			}
			break
		}
		_ = acquired
		var r res
		hung := false
		select {
		case r = <-ch:
		case <-time.After(advWait):
			hung = true
		}
		rec.Eval()
		o := advOutcome{Step: st.String()}
		switch {
		case hung:
			o.Outcome = "hang"
			o.Detail = goroutineDump("localtxmonitor", "localstatequery")
		case r.err != nil:
			o.Outcome = "error"
			o.Detail = r.err.Error()
		case isRight(st) && r.val == want:
			o.Outcome = "own-reply"
		default:
			o.Outcome = "returned-foreign-reply"
			o.Detail = fmt.Sprintf("returned %q, expected %q (serve error %q)", clipStr(r.val, 120), clipStr(want, 120), serveErr)
		}
		outcomes = append(outcomes, o)
		cs["outcomes"] = outcomes
		cls := "good_round"
		if !isRight(st) {
			cls = "wrong_kind:" + st.String()
		}
		rec.Class("adv_" + cls + "=" + o.Outcome)
		if o.Outcome == "returned-foreign-reply" {
			what := fmt.Sprintf("%s: step %s: %s", desc, st, o.Detail)
			if isRight(st) {
				rec.Fail(rt, "C25:adv:"+st.String()+":wrong-value-for-correct-reply", what, cs)
			} else {
				rec.Fail(rt, "C25:adv:"+st.String()+":wrong-kind-reply-returned-as-answer", what, cs)
			}
			return
		}
		if o.Outcome == "hang" {
			hangMu.Lock()
			hangSeen[st.String()]++
			hangMu.Unlock()
			if isRight(st) {
				rt.Fatalf("%s: correct round %s did not return within %s (serve error %q)\n%s", desc, st, advWait, serveErr, o.Detail)
			}
			break
		}
		if o.Outcome == "error" {
			if isRight(st) {
				rt.Fatalf("%s: correct round %s failed: %s (serve error %q, client errs %v)", desc, st, o.Detail, serveErr, h.errs.list())
			}
			break
		}
		if last {
			break
		}
	}
	if len(steps) >= 1 {
		rec.NonTrivial(desc, map[string]any{"history": desc, "outcomes": summarize(outcomes)})
	}
}

func summarize(os []advOutcome) string {
	var p []string
	for _, o := range os {
		p = append(p, o.Step+"="+o.Outcome)
	}
	return strings.Join(p, " ")
}

func clipStr(s string, n int) string {
	if len(s) > n {
		return s[:n] + "…"
	}
	return s
}

var _ = bytes.Equal
