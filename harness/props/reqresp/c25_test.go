package reqresp

import (
	"bytes"
	"math"
	"errors"
	"fmt"
	"os"
	"regexp"
	"strconv"
	"strings"
	"sync"
	"sync/atomic"
	"testing"
	"time"

	ouroboros "github.com/blinklabs-io/gouroboros"
	"github.com/blinklabs-io/gouroboros/protocol"
	pcommon "github.com/blinklabs-io/gouroboros/protocol/common"
	"github.com/blinklabs-io/gouroboros/protocol/localstatequery"
	"github.com/blinklabs-io/gouroboros/protocol/localtxsubmission"
	"github.com/blinklabs-io/gouroboros/protocol/peersharing"
	"pgregory.net/rapid"

	"verif/harness/internal/evi"
	"verif/harness/internal/rawpeer"
	"verif/harness/internal/xcbor"
)

// ---- histories ------------------------------------------------------------------------------

// c25Op is one API call of a caller goroutine.
//
//	lsq    : acquireV acquireI acquireP(Arg=flavour) release era start blockno point epoch history
//	txmon  : acquire release hastx(Arg = s*4+i: id of pool tx (s,i); negative: unknown id) nexttx sizes
//	ltxsub : submit(Arg: 1 accept, 0 reject)
//	psh    : getpeers(Arg = amount)
type c25Op struct {
	Proto string `json:"p"`
	Kind  string `json:"k"`
	Arg   int    `json:"a,omitempty"`
	// Reuse (lsq acquireP): 0 a fresh Point value per call; otherwise the caller keeps ONE
	// Point variable for the whole history and passes its address again after
	// 1 assigning a new slot and a new hash slice, 2 a new slot and overwriting the
	// hash's backing array in place, 3 nothing (the same values again: an identical
	// re-acquire), 4 changing only hash bytes in place (same slot)
	Reuse int `json:"reuse,omitempty"`
}

func (o c25Op) String() string {
	if o.Reuse != 0 {
		return fmt.Sprintf("%s.%s(%d,samevar%d)", o.Proto, o.Kind, o.Arg, o.Reuse)
	}
	if o.Arg != 0 {
		return fmt.Sprintf("%s.%s(%d)", o.Proto, o.Kind, o.Arg)
	}
	return o.Proto + "." + o.Kind
}

// c25Call is the record of one executed call.
type c25Call struct {
	G      int    `json:"g"`
	I      int    `json:"i"`
	Op     string `json:"op"`
	Start  int64  `json:"start"`
	End    int64  `json:"end"`
	Err    string `json:"err,omitempty"`
	Serial int64  `json:"serial,omitempty"` // stamp found in the reply
	Val    string `json:"val,omitempty"`    // other reply content
	op     c25Op
	tag    int64 // ltxsub: tag of the submitted blob; lsq acquireP: slot
	got    any
	hung   bool
	// ret is the object the API returned, kept untouched to the end of the
	// history; snap is a deep copy taken at return time (every other call
	// overwrites the returned object instead: the caller owns it)
	ret, snap any
	// sameAgain: Acquire was called with exactly the values of the previous call
	// on the same variable (a client may legitimately skip the round trip)
	sameAgain bool
}

func scribbleBytes(b []byte) {
	for i := range b {
		b[i] = 0x5A
	}
}

type c25History struct {
	Family   string    `json:"family"` // ntc | ntn | lsqraw
	Prologue []c25Op   `json:"prologue,omitempty"`
	Workers  [][]c25Op `json:"workers"`
	// Base / Top: special values of the integer stamps (see srvLog)
	Base int64 `json:"base,omitempty"`
	Top  bool  `json:"top,omitempty"`
	// SlowKind (ntc): the first query of that kind is answered only after the
	// client's (shortened) query timeout has expired; the other callers queue behind it
	SlowKind string `json:"slow_kind,omitempty"`
}

var c25Bases = []int64{0, 0, 0, 7, 250, 65530, 1<<31 - 4, 1<<32 - 4, 1 << 53, 1<<62 - 1000}

const (
	slowTimeout = 150 * time.Millisecond
	slowDelay   = 450 * time.Millisecond
)

func (h c25History) desc() string {
	var sb strings.Builder
	sb.WriteString(h.Family)
	if h.Base != 0 || h.Top {
		fmt.Fprintf(&sb, " base=%d top=%v", h.Base, h.Top)
	}
	if h.SlowKind != "" {
		sb.WriteString(" slow=" + h.SlowKind)
	}
	if len(h.Prologue) > 0 {
		sb.WriteString(" pre[")
		for i, o := range h.Prologue {
			if i > 0 {
				sb.WriteByte(' ')
			}
			sb.WriteString(o.String())
		}
		sb.WriteByte(']')
	}
	for g, w := range h.Workers {
		fmt.Fprintf(&sb, " g%d[", g)
		for i, o := range w {
			if i > 0 {
				sb.WriteByte(' ')
			}
			sb.WriteString(o.String())
		}
		sb.WriteByte(']')
	}
	return sb.String()
}

var lsqQueries = []string{"era", "start", "blockno", "point", "epoch", "history"}

// genNtC draws a history for the node-to-client connection pair. Preconditions
// every real caller respects are kept by construction: Release is only issued
// by the one goroutine that owns acquire/release of that protocol, and only
// after it has itself completed a call that leaves the client acquired; an
// explicit local-state-query Acquire is only issued when the client is known
// not to be acquired (with several goroutines: in the prologue, before the
// others start), because a second Acquire is a re-acquire, which the real
// server never answers (see findings/C25.md).
func genNtC(rt *rapid.T, maxOps int, allowFailAcquire bool) c25History {
	h := c25History{Family: "ntc"}
	g := rapid.SampledFrom([]int{1, 1, 2, 2, 3, 4}).Draw(rt, "goroutines")
	if rapid.IntRange(0, 11).Draw(rt, "burst") == 0 {
		// more simultaneous callers than a protocol's outbound queue holds
		g = rapid.IntRange(sendQueueCap+1, sendQueueCap+60).Draw(rt, "burst_goroutines")
		maxOps = 2
	}
	protos := rapid.SampledFrom([][]string{
		{"lsq"}, {"txmon"}, {"ltxsub"}, {"lsq", "txmon"}, {"lsq", "txmon", "ltxsub"}, {"lsq", "txmon", "ltxsub"},
	}).Draw(rt, "protocols")
	focus := false
	if g > sendQueueCap && rapid.IntRange(0, 3).Draw(rt, "burst_focus") != 0 {
		// all callers of the burst on one protocol, so that more of them than the
		// outbound queue holds really are in flight on it at the same time
		protos = [][]string{{"lsq"}, {"txmon"}, {"txmon"}, {"ltxsub"}}[rapid.IntRange(0, 3).Draw(rt, "burst_proto")]
		maxOps = 4 // callers that come back for more race with the ones still queued
		focus = true
		if protos[0] == "txmon" {
			// the snapshot is acquired before the burst starts
			h.Prologue = append(h.Prologue, c25Op{Proto: "txmon", Kind: "acquire"})
		}
	}
	has := func(p string) bool {
		for _, x := range protos {
			if x == p {
				return true
			}
		}
		return false
	}
	lsqAcq := false // single goroutine: exact; several: only meaningful in the prologue
	if has("lsq") && rapid.Bool().Draw(rt, "lsq_prologue_acquire") {
		o := genLsqAcquire(rt, allowFailAcquire)
		h.Prologue = append(h.Prologue, o)
		lsqAcq = o.Kind != "acquireP" || o.Arg == flavOK
		if !lsqAcq {
			// a failed acquire leaves the client idle; a second explicit acquire is allowed
			if rapid.Bool().Draw(rt, "lsq_prologue_acquire2") {
				o2 := genLsqAcquire(rt, true)
				h.Prologue = append(h.Prologue, o2)
				lsqAcq = o2.Kind != "acquireP" || o2.Arg == flavOK
			}
		}
	}
	lsqOwner, monOwner := 0, 1%g
	lastHas := 0
	h.Base = rapid.SampledFrom(c25Bases).Draw(rt, "stamp_base")
	h.Top = rapid.IntRange(0, 3).Draw(rt, "stamp_top") == 0
	if has("lsq") && g <= 4 && rapid.IntRange(0, 119).Draw(rt, "slow_query") == 0 {
		h.SlowKind = rapid.SampledFrom(lsqQueries).Draw(rt, "slow_kind")
	}
	lsqSince := lsqAcq // the owner knows the client is acquired
	monSince := false
	h.Workers = make([][]c25Op, g)
	for w := 0; w < g; w++ {
		n := rapid.IntRange(1, maxOps).Draw(rt, "n_ops")
		for i := 0; i < n; i++ {
			p := rapid.SampledFrom(protos).Draw(rt, "proto")
			var o c25Op
			switch p {
			case "lsq":
				c := rapid.IntRange(0, 9).Draw(rt, "lsq_kind")
				switch {
				case w == lsqOwner && c == 0 && lsqSince:
					o = c25Op{Proto: "lsq", Kind: "release"}
					lsqSince = false
					lsqAcq = false
				case w == lsqOwner && g == 1 && c == 1 && !lsqAcq:
					o = genLsqAcquire(rt, allowFailAcquire)
					if o.Kind != "acquireP" || o.Arg == flavOK {
						lsqAcq, lsqSince = true, true
					}
				default:
					o = c25Op{Proto: "lsq", Kind: rapid.SampledFrom(lsqQueries).Draw(rt, "lsq_query")}
					if w == lsqOwner {
						lsqSince, lsqAcq = true, true
					}
				}
			case "txmon":
				c := rapid.IntRange(0, 9).Draw(rt, "txmon_kind")
				switch {
				case focus && c == 9:
					o = c25Op{Proto: "txmon", Kind: "sizes"}
				case focus:
					// only calls a client could let run side by side
					o = c25Op{Proto: "txmon", Kind: "hastx", Arg: rapid.SampledFrom([]int{4, 4, 4, 8, 9, 5, -1}).Draw(rt, "hastx_burst")}
				case w == monOwner && c == 0 && monSince:
					o = c25Op{Proto: "txmon", Kind: "release"}
					monSince = false
				case w == monOwner && c <= 2:
					o = c25Op{Proto: "txmon", Kind: "acquire"}
					monSince = true
				case c <= 5:
					o = c25Op{Proto: "txmon", Kind: "nexttx"}
				case g > sendQueueCap && c <= 7:
					// burst: many HasTx calls at once whose answers differ within the
					// first snapshot (tx (1,0) is in it, the others are not)
					o = c25Op{Proto: "txmon", Kind: "hastx", Arg: rapid.SampledFrom([]int{4, 4, 4, 8, 9, 5, -1}).Draw(rt, "hastx_burst")}
				case c <= 8:
					a := rapid.SampledFrom([]int{1, 1, 2, 2, 3, 3, 4, 5, 6}).Draw(rt, "hastx_s")*4 + rapid.SampledFrom([]int{0, 0, 1, 2}).Draw(rt, "hastx_i")
					switch rapid.IntRange(0, 9).Draw(rt, "hastx_variant") {
					case 0:
						a = rapid.SampledFrom([]int{-1, -2, -3, -7}).Draw(rt, "hastx_special") // all-zero, empty, unknown ids
					case 1, 2, 3:
						if lastHas != 0 {
							a = lastHas // the same id again, possibly in another snapshot
						}
					}
					lastHas = a
					o = c25Op{Proto: "txmon", Kind: "hastx", Arg: a}
				default:
					o = c25Op{Proto: "txmon", Kind: "sizes"}
				}
				if w == monOwner && o.Kind != "release" {
					monSince = true
				}
			case "ltxsub":
				o = c25Op{Proto: "ltxsub", Kind: "submit", Arg: rapid.IntRange(0, 1).Draw(rt, "accept")}
			}
			h.Workers[w] = append(h.Workers[w], o)
		}
	}
	return h
}

// allowImmutable: the real local-state-query server rejects MsgAcquireImmutableTip
// as an unexpected message (connection error, nothing to judge), so only the
// raw-server family draws it.
var allowImmutable = false

// genLsqRaw draws a local-state-query history for the raw harness server,
// which (unlike the real server) answers re-acquire and immutable-tip
// requests: explicit acquires may come at any time from the owner goroutine.
// A refusing point is only used while the client is known to be idle (the
// client keeps its acquired flag when a re-acquire is refused and would then
// send a query from the idle state: an error, nothing to judge).
func genLsqRaw(rt *rapid.T, maxOps int) c25History {
	h := c25History{Family: "lsqraw"}
	h.Base = rapid.SampledFrom(c25Bases).Draw(rt, "stamp_base")
	h.Top = rapid.IntRange(0, 3).Draw(rt, "stamp_top") == 0
	g := rapid.SampledFrom([]int{1, 1, 2, 3, 4}).Draw(rt, "goroutines")
	h.Workers = make([][]c25Op, g)
	known := true // the owner knows whether the client is acquired (single goroutine, or prologue)
	acq := false
	since := false
	imm := func() c25Op {
		allowImmutable = true
		defer func() { allowImmutable = false }()
		return genLsqAcquire(rt, false)
	}
	n0 := rapid.IntRange(0, 3).Draw(rt, "n_prologue")
	for i := 0; i < n0; i++ {
		var o c25Op
		switch c := rapid.IntRange(0, 9).Draw(rt, "pro_kind"); {
		case c <= 1 && !acq:
			o = c25Op{Proto: "lsq", Kind: "acquireP", Arg: rapid.SampledFrom([]int{flavTooOld, flavNotOnChain}).Draw(rt, "acq_fail")}
		case c <= 6:
			o = imm()
			acq, since = true, true
		case c == 7 && acq:
			o = c25Op{Proto: "lsq", Kind: "release"}
			acq, since = false, false
		default:
			o = c25Op{Proto: "lsq", Kind: rapid.SampledFrom(lsqQueries).Draw(rt, "lsq_query")}
			acq, since = true, true
		}
		h.Prologue = append(h.Prologue, o)
	}
	known = g == 1
	for w := 0; w < g; w++ {
		n := rapid.IntRange(1, maxOps).Draw(rt, "n_ops")
		for i := 0; i < n; i++ {
			var o c25Op
			c := rapid.IntRange(0, 9).Draw(rt, "lsq_kind")
			switch {
			case w == 0 && c == 0 && since:
				o = c25Op{Proto: "lsq", Kind: "release"}
				since, acq = false, false
			case w == 0 && c <= 3:
				if known && !acq && rapid.IntRange(0, 3).Draw(rt, "refuse") == 0 {
					o = c25Op{Proto: "lsq", Kind: "acquireP", Arg: rapid.SampledFrom([]int{flavTooOld, flavNotOnChain}).Draw(rt, "acq_fail")}
				} else {
					o = imm()
					since, acq = true, true
				}
			default:
				o = c25Op{Proto: "lsq", Kind: rapid.SampledFrom(lsqQueries).Draw(rt, "lsq_query")}
				if w == 0 {
					since, acq = true, true
				}
			}
			h.Workers[w] = append(h.Workers[w], o)
		}
	}
	return h
}

func genLsqAcquire(rt *rapid.T, allowFail bool) c25Op {
	switch rapid.IntRange(0, 9).Draw(rt, "acq_kind") {
	case 0, 1, 2:
		return c25Op{Proto: "lsq", Kind: "acquireV"}
	case 3, 4:
		if allowImmutable {
			return c25Op{Proto: "lsq", Kind: "acquireI"}
		}
	case 5:
		if allowFail {
			return c25Op{Proto: "lsq", Kind: "acquireP", Arg: rapid.SampledFrom([]int{flavTooOld, flavNotOnChain}).Draw(rt, "acq_fail")}
		}
	}
	return c25Op{Proto: "lsq", Kind: "acquireP", Arg: flavOK, Reuse: rapid.SampledFrom([]int{0, 1, 1, 2, 3, 4}).Draw(rt, "same_point_variable")}
}

func genNtN(rt *rapid.T, maxOps int, maxG int) c25History {
	h := c25History{Family: "ntn"}
	g := rapid.IntRange(1, maxG).Draw(rt, "goroutines")
	if rapid.IntRange(0, 7).Draw(rt, "burst") == 0 {
		// more simultaneous callers than the outbound queue holds
		g = rapid.IntRange(sendQueueCap+1, sendQueueCap+60).Draw(rt, "burst_goroutines")
		maxOps = 2
	}
	h.Workers = make([][]c25Op, g)
	for w := 0; w < g; w++ {
		n := rapid.IntRange(1, maxOps).Draw(rt, "n_ops")
		for i := 0; i < n; i++ {
			amount := rapid.IntRange(0, 255).Draw(rt, "amount")
			if rapid.IntRange(0, 2).Draw(rt, "amount_special") == 0 {
				amount = rapid.SampledFrom([]int{0, 0, 1, 4, 8, 254, 255}).Draw(rt, "amount_edge")
			}
			h.Workers[w] = append(h.Workers[w], c25Op{Proto: "psh", Kind: "getpeers", Arg: amount})
		}
	}
	return h
}

// ---- execution --------------------------------------------------------------------------------

// c25Case is the state of one running case; the process-wide tracer feeds the
// current one.
type c25Case struct {
	clk     lclock
	log     *srvLog
	monSrv  *protocol.Protocol
	tagSeq  atomic.Int64
	slotSeq atomic.Int64
	reusePt *pcommon.Point // only touched by the prologue and by worker 0 (the lsq owner)
	abort   atomic.Bool
}

var curCase atomic.Pointer[c25Case]

func c25Tracer(ev protocol.VerifEvent) {
	c := curCase.Load()
	if c == nil || c.monSrv == nil || ev.P != c.monSrv {
		return
	}
	txmonTrace(c.log, ev)
}

var reSerial = regexp.MustCompile(`serial=(\d+) tag=(-?\d+)`)

// perform executes one call on the client connection and fills in the record.
func (c *c25Case) perform(oc *ouroboros.Connection, call *c25Call) {
	o := call.op
	var err error
	switch o.Proto {
	case "lsq":
		cl := oc.LocalStateQuery().Client
		switch o.Kind {
		case "acquireV":
			call.Start = c.clk.tick()
			err = cl.AcquireVolatileTip()
		case "acquireI":
			call.Start = c.clk.tick()
			err = cl.AcquireImmutableTip()
		case "acquireP":
			call.tag = 5000 + c.slotSeq.Add(1)
			slot := uint64(call.tag)
			if c.log.top {
				slot = math.MaxUint64 - uint64(call.tag) // points at the top of the slot range
				call.tag = int64(slot)
			}
			if o.Reuse != 0 {
				// the caller's one long-lived Point variable, updated in place
				pt := c.reusePt
				mode := o.Reuse
				if pt == nil {
					pt = &pcommon.Point{}
					c.reusePt = pt
					mode = 1
				} else if mode >= 3 && (len(pt.Hash) != 32 || pt.Hash[0] != flavOK) {
					mode = 1 // the variable does not hold an acceptable point
				}
				switch mode {
				case 1:
					pt.Slot, pt.Hash = slot, lsqPointHash(o.Arg, slot)
				case 2:
					if len(pt.Hash) != 32 {
						pt.Hash = make([]byte, 32)
					}
					pt.Slot = slot
					copy(pt.Hash, lsqPointHash(o.Arg, slot))
				case 3:
					slot = pt.Slot
				case 4:
					slot = pt.Slot
					pt.Hash[20]++
				}
				call.tag = int64(slot)
				call.sameAgain = mode == 3
				call.Start = c.clk.tick()
				err = cl.Acquire(pt)
				break
			}
			pt := pcommon.NewPoint(slot, lsqPointHash(o.Arg, slot))
			call.Start = c.clk.tick()
			err = cl.Acquire(&pt)
			scribbleBytes(pt.Hash) // the caller re-uses its buffer
		case "release":
			call.Start = c.clk.tick()
			err = cl.Release()
		case "era":
			call.Start = c.clk.tick()
			var v int
			v, err = cl.GetCurrentEra()
			call.Serial = c.log.unstamp("era", uint64(v))
		case "start":
			call.Start = c.clk.tick()
			var v *localstatequery.SystemStartResult
			v, err = cl.GetSystemStart()
			if err == nil && v != nil {
				call.Serial = c.log.unstamp("start", v.Year.Uint64())
				call.Val = fmt.Sprintf("day=%d pico=%s", v.Day, v.Picoseconds.String())
				if int64(v.Day) != call.Serial%366 || v.Picoseconds.Int64() != call.Serial*7 {
					call.Val += " INCONSISTENT"
				}
			}
		case "blockno":
			call.Start = c.clk.tick()
			var v int64
			v, err = cl.GetChainBlockNo()
			call.Serial = c.log.unstamp("blockno", uint64(v))
		case "point":
			call.Start = c.clk.tick()
			var v *pcommon.Point
			v, err = cl.GetChainPoint()
			if err == nil && v != nil {
				call.Serial = c.log.unstamp("point", v.Slot)
				if !bytes.Equal(v.Hash, lsqPointHash(9, uint64(call.Serial))) {
					call.Val = fmt.Sprintf("hash=%x INCONSISTENT", v.Hash)
				}
				if call.I%2 == 0 {
					call.ret, call.snap = v, pcommon.NewPoint(v.Slot, append([]byte(nil), v.Hash...))
				} else {
					scribbleBytes(v.Hash)
					v.Slot = 0
				}
			}
		case "epoch":
			call.Start = c.clk.tick()
			var v int
			v, err = cl.GetEpochNo()
			call.Serial = c.log.unstamp("epoch", uint64(v))
		case "history":
			call.Start = c.clk.tick()
			var v []localstatequery.EraHistoryResult
			v, err = cl.GetEraHistory()
			if err == nil {
				if len(v) != 1 {
					call.Val = fmt.Sprintf("len=%d INCONSISTENT", len(v))
				} else {
					call.Serial = c.log.unstamp("history", uint64(v[0].Begin.SlotNo))
					if v[0].End.SlotNo != v[0].Begin.SlotNo+1 || v[0].Begin.EpochNo != v[0].Begin.SlotNo {
						call.Val = fmt.Sprintf("%+v INCONSISTENT", v[0])
					}
				}
			}
		}
	case "txmon":
		cl := oc.LocalTxMonitor().Client
		switch o.Kind {
		case "acquire":
			call.Start = c.clk.tick()
			err = cl.Acquire()
		case "release":
			call.Start = c.clk.tick()
			err = cl.Release()
		case "hastx":
			id := hasTxId(o.Arg)
			call.Start = c.clk.tick()
			var v bool
			v, err = cl.HasTx(id)
			scribbleBytes(id) // the caller re-uses its buffer
			call.got = v
			call.Val = fmt.Sprint(v)
		case "nexttx":
			call.Start = c.clk.tick()
			var v []byte
			v, err = cl.NextTx()
			call.got = append([]byte(nil), v...)
			if v == nil {
				call.got = []byte(nil)
			}
			call.Val = fmt.Sprintf("%d bytes", len(v))
			if call.I%2 == 0 {
				call.ret, call.snap = v, call.got
			} else {
				scribbleBytes(v)
			}
		case "sizes":
			call.Start = c.clk.tick()
			var a, b, n uint32
			a, b, n, err = cl.GetSizes()
			call.got = [3]uint32{a, b, n}
			call.Val = fmt.Sprintf("cap=%d size=%d n=%d", a, b, n)
		}
	case "ltxsub":
		cl := oc.LocalTxSubmission().Client
		call.tag = c.tagSeq.Add(1)
		blob := ltxBlob(call.tag, o.Arg == 1)
		call.Start = c.clk.tick()
		err = cl.SubmitTx(conwayEra, blob)
		scribbleBytes(blob) // the caller re-uses its buffer
		var rej localtxsubmission.TransactionRejectedError
		if errors.As(err, &rej) {
			call.Val = "rejected"
			call.got = false
			txt := ""
			if n, perr := xcbor.ParseExact(rej.ReasonCbor); perr == nil && n.Kind == xcbor.Text {
				txt = string(n.Payload())
			}
			if m := reSerial.FindStringSubmatch(txt); m != nil {
				call.Serial, _ = strconv.ParseInt(m[1], 10, 64)
				t, _ := strconv.ParseInt(m[2], 10, 64)
				call.Val = fmt.Sprintf("rejected serial=%d tag=%d", call.Serial, t)
			} else {
				call.Val = fmt.Sprintf("rejected, reason %x", rej.ReasonCbor)
			}
			err = nil
		} else if err == nil {
			call.Val = "accepted"
			call.got = true
		}
	case "psh":
		cl := oc.PeerSharing().Client
		call.Start = c.clk.tick()
		peers, perr := cl.GetPeers(uint8(o.Arg))
		err = perr
		if err == nil {
			var parts []string
			for _, p := range peers {
				parts = append(parts, fmt.Sprintf("%s:%d", p.IP.String(), p.Port))
			}
			call.Val = strings.Join(parts, ",")
			var cp []string
			for i, p := range peers {
				ip := p.IP.To4()
				var ser int64 = -1
				if ip != nil && ip[0] == 10 {
					ser = int64(ip[1])<<16 | int64(ip[2])<<8 | int64(ip[3])
				}
				if i == 0 {
					call.Serial = ser
				} else if ser != call.Serial {
					call.Val += " INCONSISTENT"
				}
				if int(p.Port) != 1000+o.Arg+256*i && ser == call.Serial {
					// the port repeats the amount the server saw: judged below through the log
					call.Val += fmt.Sprintf(" (port %d)", p.Port)
				}
				cp = append(cp, fmt.Sprintf("%s:%d", p.IP.String(), p.Port))
			}
			call.got = len(peers)
			if call.I%2 == 0 {
				call.ret, call.snap = peers, cp
			} else {
				for _, p := range peers {
					scribbleBytes(p.IP)
				}
			}
		}
	}
	call.End = c.clk.tick()
	if err != nil {
		call.Err = err.Error()
	}
}

// hasTxId returns a fresh buffer with the id to ask for: arg > 0 the hash of
// pool transaction (arg/4, arg%4); -1 the all-zero id; -2 an empty id; other
// negative values ids no snapshot contains.
func hasTxId(arg int) []byte {
	switch {
	case arg == -1:
		return make([]byte, 32)
	case arg == -2:
		return []byte{}
	case arg < 0:
		h := make([]byte, 32)
		h[0], h[1] = 0xEE, byte(-arg)
		return h
	}
	return append([]byte(nil), pool().tx(int64(arg/4), arg%4).Hash...)
}

// failureExpected reports whether the history asks for this call to fail.
func failureExpected(o c25Op) bool {
	return o.Proto == "lsq" && o.Kind == "acquireP" && o.Arg != flavOK
}

type c25Run struct {
	log     *srvLog
	calls   []*c25Call
	events  []*srvEvent
	hung    bool
	dump    string
	cliErrs []string
	srvErrs []string
}

// runHistory executes h on a fresh connection pair.
// c25Env is the connection a history runs on.
type c25Env struct {
	cli     *ouroboros.Connection
	close   func()
	cliErrs func() []string
	srvErrs func() []string
}

// runHistory executes h on a fresh connection (pair).
func runHistory(rt c24TB, planA, planB rawpeer.Plan, h c25History) *c25Run {
	c := &c25Case{}
	c.log = &srvLog{clk: &c.clk, base: h.Base, top: h.Top}
	if h.SlowKind != "" {
		c.log.slowKind, c.log.slowDelay = h.SlowKind, slowDelay
	}
	var env c25Env
	if h.Family == "lsqraw" {
		hf, err := dialRaw(false, planA, planB)
		if err != nil {
			rt.Fatalf("setup: %v", err)
		}
		stop := make(chan struct{})
		srvDone := make(chan struct{})
		var srvErr []string
		go func() {
			defer close(srvDone)
			if err := rawLsqServer(hf, c.log, stop); err != nil {
				srvErr = append(srvErr, err.Error())
			}
		}()
		env = c25Env{cli: hf.oc,
			close: func() {
				close(stop)
				hf.close()
				<-srvDone
			},
			cliErrs: hf.errs.list,
			srvErrs: func() []string { return srvErr },
		}
	} else {
		lsqCfg, monCfg, subCfg, pshCfg := lsqServerConfig(c.log), txmonServerConfig(c.log), ltxsubServerConfig(c.log), pshServerConfig(c.log)
		ntn := h.Family == "ntn"
		var cliOpts, srvOpts []ouroboros.ConnectionOptionFunc
		if ntn {
			cliOpts = []ouroboros.ConnectionOptionFunc{ouroboros.WithPeerSharing(true)}
			srvOpts = []ouroboros.ConnectionOptionFunc{ouroboros.WithPeerSharing(true), ouroboros.WithPeerSharingConfig(pshCfg)}
		} else {
			srvOpts = []ouroboros.ConnectionOptionFunc{
				ouroboros.WithLocalStateQueryConfig(lsqCfg), ouroboros.WithLocalTxMonitorConfig(monCfg), ouroboros.WithLocalTxSubmissionConfig(subCfg),
			}
			if h.SlowKind != "" {
				cliOpts = []ouroboros.ConnectionOptionFunc{ouroboros.WithLocalStateQueryConfig(
					localstatequery.NewConfig(localstatequery.WithQueryTimeout(slowTimeout)))}
			}
		}
		p, err := newPair(ntn, planA, planB, cliOpts, srvOpts)
		if err != nil {
			rt.Fatalf("setup: %v", err)
		}
		if !ntn {
			if p.srv.LocalTxMonitor() == nil || p.cli.LocalTxMonitor() == nil || p.cli.LocalStateQuery() == nil {
				p.close()
				rt.Fatalf("setup: negotiated version lacks local-state-query / local-tx-monitor")
			}
			c.monSrv = p.srv.LocalTxMonitor().Server.Protocol
		} else if p.cli.PeerSharing() == nil {
			p.close()
			rt.Fatalf("setup: negotiated version lacks peer-sharing")
		}
		env = c25Env{cli: p.cli, close: p.close, cliErrs: p.cliErr.list, srvErrs: p.srvErr.list}
	}
	curCase.Store(c)
	run := &c25Run{}
	var mu sync.Mutex
	record := func(cl *c25Call) {
		mu.Lock()
		run.calls = append(run.calls, cl)
		mu.Unlock()
	}
	exec := func(g int, ops []c25Op) {
		for i, o := range ops {
			if c.abort.Load() {
				return
			}
			call := &c25Call{G: g, I: i, Op: o.String(), op: o}
			record(call)
			c.perform(env.cli, call)
			if call.Err != "" && !failureExpected(o) && h.SlowKind == "" {
				// (in a slow-query history the callers keep going after the timeout:
				// whatever they still get back is judged)
				c.abort.Store(true)
				return
			}
		}
	}
	fin := make(chan struct{})
	go func() {
		defer close(fin)
		exec(-1, h.Prologue)
		var wg sync.WaitGroup
		for g, ops := range h.Workers {
			wg.Add(1)
			go func() {
				defer wg.Done()
				exec(g, ops)
			}()
		}
		wg.Wait()
	}()
	total := len(h.Prologue)
	for _, w := range h.Workers {
		total += len(w)
	}
	select {
	case <-fin:
	case <-time.After(callWait + time.Duration(total)*200*time.Millisecond):
		run.hung = true
		run.dump = goroutineDump("reqresp.(*c25Case).perform", "gouroboros/protocol")
	}
	env.close()
	if run.hung {
		// closing the connections releases callers blocked on a result channel
		select {
		case <-fin:
		case <-time.After(5 * time.Second):
		}
	}
	curCase.Store(nil)
	run.events = c.log.snapshot()
	run.log = c.log
	run.cliErrs, run.srvErrs = env.cliErrs(), env.srvErrs()
	mu.Lock()
	defer mu.Unlock()
	for _, cl := range run.calls {
		if cl.End == 0 {
			cl.hung = true
		}
	}
	return run
}

// ---- oracle -------------------------------------------------------------------------------------

type c25Verdict struct {
	key, what string
}

// sendQueueCap is the capacity of a protocol's outbound message queue
// (protocol.go: make(chan outboundMessage, 80)); more simultaneous callers than
// that block inside SendMessage, which is its own schedule class ("burst").
const sendQueueCap = 80

func concClass(h c25History) string {
	switch {
	case len(h.Workers) > sendQueueCap:
		return "burst"
	case len(h.Workers) > 1:
		return "concurrent"
	}
	return "sequential"
}

// judge evaluates every completed call of the run against the server log.
// It returns the violations found (at most one per call) and the number of
// oracle evaluations.
func judge(h c25History, run *c25Run) (out []c25Verdict, evals int) {
	conc := concClass(h)
	bySerial := map[int64]*srvEvent{}
	for _, e := range run.events {
		if e.Serial != 0 {
			bySerial[e.Serial] = e
		}
	}
	txmonModel(run.events)
	seen := map[int64]*c25Call{}
	bad := func(cl *c25Call, reason, what string) {
		sched := conc
		if h.Family == "lsqraw" {
			sched = "raw-server:" + conc
		} else if cl.op.Proto == "lsq" && afterFailedAcquire(run, cl) {
			sched = "after-refused-acquire"
		}
		out = append(out, c25Verdict{
			key:  fmt.Sprintf("C25:%s:%s:%s:%s", cl.op.Proto, cl.op.Kind, reason, sched),
			what: fmt.Sprintf("call g%d#%d %s [%d,%d] returned %s: %s", cl.G, cl.I, cl.Op, cl.Start, cl.End, callResult(cl), what),
		})
	}
	// calls whose reply carries a stamp
	stamped := func(cl *c25Call, wantKind string) *srvEvent {
		evals++
		if strings.Contains(cl.Val, "INCONSISTENT") {
			bad(cl, "reply-fields-from-different-replies", "the fields of the returned reply do not belong to one server reply ("+cl.Val+")")
			return nil
		}
		e := bySerial[cl.Serial]
		if e == nil {
			bad(cl, "unknown-serial", fmt.Sprintf("the server never issued serial %d", cl.Serial))
			return nil
		}
		if e.Proto != cl.op.Proto || e.Kind != wantKind {
			bad(cl, "reply-to-other-kind", fmt.Sprintf("serial %d was issued for a %s.%s request", cl.Serial, e.Proto, e.Kind))
			return nil
		}
		if prev := seen[cl.Serial]; prev != nil {
			bad(cl, "reply-returned-twice", fmt.Sprintf("serial %d was already returned to call g%d#%d %s", cl.Serial, prev.G, prev.I, prev.Op))
			return nil
		}
		seen[cl.Serial] = cl
		if e.T <= cl.Start || e.T >= cl.End {
			bad(cl, "served-outside-call-window", fmt.Sprintf("serial %d was served at logical time %d", cl.Serial, e.T))
			return nil
		}
		return e
	}
	var matchCalls []*c25Call
	for _, cl := range run.calls {
		if cl.hung || cl.End == 0 {
			continue
		}
		if cl.Err != "" {
			// a refused acquire is a reply and needs its own server event; any other error
			// (the connection had already ended, e.g. after an earlier query timed out:
			// "protocol is shutting down") is no reply at all and claims nothing
			if failureExpected(cl.op) && strings.Contains(cl.Err, "acquire failure") {
				matchCalls = append(matchCalls, cl)
			}
			continue
		}
		switch cl.op.Proto {
		case "lsq":
			switch cl.op.Kind {
			case "release":
			case "acquireV", "acquireI", "acquireP":
				if !cl.sameAgain {
					matchCalls = append(matchCalls, cl)
				}
			case "epoch":
				if e := stamped(cl, "epoch"); e != nil {
					// the era the client embedded in the query is itself a reply: it must
					// be the answer to a current-era query served inside this call
					// (an era cached from an earlier call of the same session would be a
					// legitimate design, so only "is an era reply served before this
					// query" is demanded)
					ee := bySerial[run.log.unstamp("era", uint64(e.Arg))]
					if ee == nil || ee.Kind != "era" || ee.T >= e.T {
						bad(cl, "era-not-from-an-era-reply", fmt.Sprintf("the epoch query carried era %d, which is not the stamp of a current-era reply served before the query", e.Arg))
					}
				}
			default:
				stamped(cl, cl.op.Kind)
			}
		case "txmon":
			if cl.op.Kind != "release" {
				matchCalls = append(matchCalls, cl)
			}
		case "ltxsub":
			if acc, _ := cl.got.(bool); acc {
				matchCalls = append(matchCalls, cl)
			} else if e := stamped(cl, "submit"); e != nil {
				if e.Arg != cl.tag || e.OK {
					bad(cl, "reply-to-other-tx", fmt.Sprintf("reject serial %d was issued for tx tag %d (accepted=%v); this call submitted tag %d", cl.Serial, e.Arg, e.OK, cl.tag))
				}
			}
		case "psh":
			if n, _ := cl.got.(int); n == 0 {
				matchCalls = append(matchCalls, cl) // an empty answer carries no stamp
			} else if e := stamped(cl, "getpeers"); e != nil {
				if n != pshCount(int(e.Arg)) {
					bad(cl, "reply-fields-from-different-replies", fmt.Sprintf("serial %d was sent with %d peers, the call returned %d", cl.Serial, pshCount(int(e.Arg)), n))
				}
				if e.Arg != int64(cl.op.Arg) {
					bad(cl, "reply-to-other-amount", fmt.Sprintf("serial %d answered a request for %d peers; this call asked for %d", cl.Serial, e.Arg, cl.op.Arg))
				}
			}
		}
	}
	// single caller: every query must have been answered by the server for the
	// point this client acquired most recently (the server stamps what it holds)
	if len(h.Workers) == 1 && h.SlowKind == "" && (h.Family == "lsqraw" || h.Family == "ntc") {
		cur := int64(ptNone)
		for _, cl := range run.calls { // prologue first, then worker 0, in program order
			if cl.op.Proto != "lsq" || cl.hung || cl.End == 0 {
				continue
			}
			if cl.Err != "" && !failureExpected(cl.op) {
				break
			}
			switch cl.op.Kind {
			case "release":
				cur = ptNone
			case "acquireV":
				cur = ptVolatile
			case "acquireI":
				cur = ptImmutable
			case "acquireP":
				cur = cl.tag
				if cl.Err != "" {
					cur = ptNone
				}
			default:
				if cur == ptNone {
					cur = ptVolatile // the query acquires the volatile tip by itself
				}
				e := bySerial[cl.Serial]
				if e == nil || e.Proto != "lsq" {
					continue // reported above
				}
				evals++
				if e.Pt != cur {
					bad(cl, "answered-for-another-point", fmt.Sprintf("the client had last acquired %s, the server answered this query while holding %s", ptName(cur), ptName(e.Pt)))
				}
			}
		}
	}
	// calls whose reply has no room for a stamp: every such call needs its own
	// server event, served inside the call window, whose modelled reply equals
	// what the call returned (maximum bipartite matching)
	var evs []*srvEvent
	for _, e := range run.events {
		if e.Serial == 0 || e.Kind == "submit" || e.Kind == "getpeers" {
			evs = append(evs, e)
		}
	}
	compatible := func(cl *c25Call, e *srvEvent) bool {
		if e.Proto != cl.op.Proto || e.T <= cl.Start || e.T >= cl.End {
			return false
		}
		switch cl.op.Proto {
		case "lsq":
			switch cl.op.Kind {
			case "acquireV", "acquireI":
				return e.Kind == cl.op.Kind || e.Kind == "re"+cl.op.Kind
			case "acquireP":
				return (e.Kind == "acquireP" || e.Kind == "reacquireP") && e.Arg == cl.tag && e.OK == (cl.Err == "")
			}
		case "txmon":
			if e.Kind != cl.op.Kind {
				return false
			}
			switch cl.op.Kind {
			case "acquire":
				return true
			case "hastx":
				want := false
				if cl.op.Arg > 0 {
					want = int64(cl.op.Arg/4) == e.Snap && cl.op.Arg%4 < snapLen(e.Snap)
				}
				return cl.got.(bool) == want
			case "nexttx":
				var want []byte
				if e.Idx < snapLen(e.Snap) {
					want = pool().tx(e.Snap, e.Idx).Bytes
				}
				return bytes.Equal(cl.got.([]byte), want)
			case "sizes":
				var size uint32
				for i := 0; i < snapLen(e.Snap); i++ {
					size += uint32(len(pool().tx(e.Snap, i).Bytes))
				}
				want := [3]uint32{snapCapacity(e.Snap), size, uint32(snapLen(e.Snap))}
				if e.Snap <= 0 {
					want = [3]uint32{}
				}
				return cl.got.([3]uint32) == want
			}
		case "ltxsub":
			return e.Kind == "submit" && e.Arg == cl.tag && e.OK
		case "psh":
			return e.Kind == "getpeers" && e.Arg == int64(cl.op.Arg) && pshCount(cl.op.Arg) == 0
		}
		return false
	}
	// results kept untouched since they were returned must still equal the copy taken then
	for _, cl := range run.calls {
		if cl.ret == nil {
			continue
		}
		evals++
		same := true
		switch r := cl.ret.(type) {
		case []byte:
			same = bytes.Equal(r, cl.snap.([]byte))
		case *pcommon.Point:
			sn := cl.snap.(pcommon.Point)
			same = r.Slot == sn.Slot && bytes.Equal(r.Hash, sn.Hash)
		case []peersharing.PeerAddress:
			sn := cl.snap.([]string)
			same = len(r) == len(sn)
			for i := 0; same && i < len(r); i++ {
				same = fmt.Sprintf("%s:%d", r[i].IP.String(), r[i].Port) == sn[i]
			}
		}
		if !same {
			bad(cl, "reply-changed-after-return", "the returned object no longer equals the copy taken when the call returned")
		}
	}
	evals += len(matchCalls)
	matchOf := make([]int, len(evs)) // event -> call index
	for i := range matchOf {
		matchOf[i] = -1
	}
	var try func(ci int, visited []bool) bool
	try = func(ci int, visited []bool) bool {
		for ei, e := range evs {
			if visited[ei] || !compatible(matchCalls[ci], e) {
				continue
			}
			visited[ei] = true
			if matchOf[ei] < 0 || try(matchOf[ei], visited) {
				matchOf[ei] = ci
				return true
			}
		}
		return false
	}
	for ci, cl := range matchCalls {
		if try(ci, make([]bool, len(evs))) {
			continue
		}
		// explain: is there any compatible event at all (then it is claimed by another call)?
		reason, what := "no-matching-request", "the server log holds no request of this kind inside the call window whose reply equals the returned value"
		for _, e := range evs {
			if compatible(cl, e) {
				reason, what = "reply-shared-with-other-call", "every server request that explains the returned value is needed to explain another call"
				break
			}
		}
		if cl.op.Proto == "txmon" && cl.op.Kind == "nexttx" {
			what += "; " + describeTx(cl.got.([]byte))
		}
		bad(cl, reason, what)
	}
	return out, evals
}

// afterFailedAcquire reports whether a local-state-query acquire that the
// server refused completed before cl started.
func afterFailedAcquire(run *c25Run, cl *c25Call) bool {
	for _, o := range run.calls {
		if o != cl && failureExpected(o.op) && o.End != 0 && o.End < cl.Start {
			return true
		}
	}
	return false
}

func ptName(p int64) string {
	switch p {
	case ptNone:
		return "nothing"
	case ptVolatile:
		return "the volatile tip"
	case ptImmutable:
		return "the immutable tip"
	}
	return fmt.Sprintf("the point at slot %d", uint64(p))
}

func callResult(cl *c25Call) string {
	if cl.Err != "" {
		return "error " + cl.Err
	}
	s := cl.Val
	if cl.Serial != 0 {
		s = fmt.Sprintf("serial %d %s", cl.Serial, s)
	}
	if s == "" {
		s = "ok"
	}
	return s
}

func describeTx(b []byte) string {
	if len(b) == 0 {
		return "returned: no transaction"
	}
	for s := int64(1); s <= 64; s++ {
		for i := 0; i < snapLen(s); i++ {
			if bytes.Equal(pool().tx(s, i).Bytes, b) {
				return fmt.Sprintf("returned: transaction %d of mempool snapshot %d", i, s)
			}
		}
	}
	return "returned: a transaction the server never held"
}

// txmonModel is the reference model of the tx-monitor server: it walks the
// server's request log in order and annotates each request with the snapshot it
// was answered from and the position of the NextTx cursor.
func txmonModel(events []*srvEvent) {
	var snap int64
	idx := 0
	pendingAcquire := false
	for _, e := range events {
		if e.Proto != "txmon" {
			continue
		}
		switch e.Kind {
		case "acquire":
			pendingAcquire = true
		case "mempool":
			if pendingAcquire {
				snap, idx = e.Serial, 0
				pendingAcquire = false
			}
		case "release":
			snap = 0
		case "hastx", "sizes":
			e.Snap = snap
		case "nexttx":
			e.Snap, e.Idx = snap, idx
			if idx < snapLen(snap) {
				idx++
			}
		}
	}
}

// ---- the check ------------------------------------------------------------------------------------

func TestC25(t *testing.T) {
	limitShrinkTime()
	rec := evi.New(t, "C25", evi.Exploration,
		"rapid-generated call histories issued by 1-4 caller goroutines against real servers whose callbacks stamp every reply with a server-side serial (block number / slot / era / epoch / system-start year, reject reason text, peer IP) and log (serial, request kind, logical time): node-to-client pair with local-state-query (acquire volatile/immutable/specific point incl. failing points, release, 6 query kinds), local-tx-monitor (acquire, re-acquire, release, has-tx, next-tx, sizes; replies modelled from the snapshot serial with a reference mempool model fed by the server's request trace) and local-tx-submission (accept/reject) sharing one connection; node-to-node pair with peer-sharing; plus raw-server families that answer with a reply of another kind. Logical clock stamps at call and return. Oracle: the returned stamp was issued for a request of the call's kind (and argument), was served inside the call's [start,end] window and is returned only once; unstamped replies (acquired, accepted, has-tx, next-tx, sizes) need an injective assignment to server requests of that kind inside the window whose modelled reply equals the returned value. Non-trivial = history with >= 2 judged replies; distinct by the history text")
	defer rec.Finish()
	rec.Assume(
		"server-side request kinds are taken from the library's own server-side decoding of the request (QueryWrapper type / message type); the reply bytes are built by the harness",
		"the logical clock is a process-wide atomic counter: a server-side stamp taken between a call's start and end stamps proves the request was served during the call",
		"tx-monitor HasTx/NextTx/GetSizes replies are produced by the real server without a callback; their expected values come from a harness reference model of the mempool snapshot (membership, cursor, sizes) replayed over the server's request trace (protocol tracer hook)",
		"the transaction hash used by HasTx is blake2b-256 of the body bytes (checked against the library at start-up for the derived transactions)",
		"errors returned by a call are never judged (only replies are); hangs are counted, not judged (C15)",
	)
	protocol.SetVerifTracer(c25Tracer)
	defer protocol.SetVerifTracer(nil)
	_ = pool()
	maxOps := rec.Pick(6, 8)
	var nHang, nErr atomic.Int64
	c25Sweep(t, rec, &nHang, &nErr)
	rec.Check(func(rt *rapid.T) {
		fam := rapid.SampledFrom([]string{"ntc", "ntc", "ntc", "ntn", "adv", "lsqraw"}).Draw(rt, "family")
		rec.Class("family_" + fam)
		if fam == "adv" {
			c25Adversarial(rec, rt)
			return
		}
		var h c25History
		switch fam {
		case "ntc":
			h = genNtC(rt, maxOps, true)
		case "lsqraw":
			h = genLsqRaw(rt, maxOps)
		default:
			h = genNtN(rt, maxOps, 4)
		}
		c25Play(rec, rt, false, fam, genPlan(rt, "a"), genPlan(rt, "b"), h, &nHang, &nErr)
	})
	rec.SetExtra("n_hangs", nHang.Load())
	rec.SetExtra("n_unexpected_errors", nErr.Load())
}

// c25Sweep plays fixed sequential histories that touch every special value and
// every refusal step once per run, independent of the seed.
func c25Sweep(t *testing.T, rec *evi.Recorder, nHang, nErr *atomic.Int64) {
	op := func(p, k string, a int) c25Op { return c25Op{Proto: p, Kind: k, Arg: a} }
	var psh []c25Op
	for _, a := range []int{0, 1, 2, 3, 4, 8, 255, 254, 0, 0, 1, 252, 5} {
		psh = append(psh, op("psh", "getpeers", a))
	}
	var mon []c25Op
	mon = append(mon, op("txmon", "sizes", 0)) // auto-acquire: snapshot 1 (one tx)
	for round := 0; round < 8; round++ {    // snapshots 2..9: capacities 2^32-1 (5) and 0 (7), empty snapshots (4, 8)
		mon = append(mon,
			op("txmon", "hastx", 4), op("txmon", "hastx", (round+2)*4), op("txmon", "hastx", -1), op("txmon", "hastx", -2),
			op("txmon", "nexttx", 0), op("txmon", "nexttx", 0), op("txmon", "nexttx", 0), op("txmon", "nexttx", 0),
			op("txmon", "sizes", 0), op("txmon", "acquire", 0))
		if round%3 == 2 {
			mon = append(mon, op("txmon", "release", 0))
		}
	}
	mon = append(mon, op("txmon", "hastx", 4), op("txmon", "nexttx", 0), op("txmon", "sizes", 0))
	var lsq []c25Op
	for _, q := range lsqQueries {
		lsq = append(lsq, op("lsq", q, 0))
	}
	realLsq := append([]c25Op{op("lsq", "acquireP", flavTooOld), op("lsq", "acquireP", flavNotOnChain), op("lsq", "acquireP", flavOK)}, lsq...)
	realLsq = append(realLsq, op("lsq", "release", 0), op("lsq", "epoch", 0), op("lsq", "release", 0), op("lsq", "acquireP", flavTooOld), op("lsq", "acquireV", 0))
	realLsq = append(realLsq, lsq...)
	rawLsq := append([]c25Op{op("lsq", "acquireI", 0), op("lsq", "acquireV", 0), op("lsq", "acquireP", flavOK)}, lsq...)
	rawLsq = append(rawLsq, op("lsq", "acquireI", 0), op("lsq", "epoch", 0), op("lsq", "release", 0), op("lsq", "acquireP", flavNotOnChain),
		op("lsq", "acquireP", flavTooOld), op("lsq", "point", 0), op("lsq", "acquireP", flavOK), op("lsq", "era", 0), op("lsq", "release", 0), op("lsq", "start", 0))
	// the caller keeps one Point variable and updates it in place between Acquire calls
	same := func(flav, mode int) c25Op { return c25Op{Proto: "lsq", Kind: "acquireP", Arg: flav, Reuse: mode} }
	var reuse []c25Op
	for _, m := range []int{1, 1, 2, 3, 4, 2, 1, 3} {
		reuse = append(reuse, same(flavOK, m), op("lsq", "point", 0), op("lsq", "epoch", 0))
	}
	reuse = append(reuse, op("lsq", "release", 0), same(flavOK, 2), op("lsq", "era", 0), op("lsq", "release", 0), same(flavTooOld, 1), same(flavOK, 2), op("lsq", "blockno", 0),
		op("lsq", "acquireV", 0), same(flavOK, 3), op("lsq", "start", 0), op("lsq", "acquireI", 0), same(flavOK, 4), op("lsq", "history", 0))
	realReuse := []c25Op{same(flavOK, 1), op("lsq", "point", 0), op("lsq", "release", 0), same(flavOK, 2), op("lsq", "era", 0), op("lsq", "release", 0),
		same(flavOK, 3), op("lsq", "epoch", 0), op("lsq", "release", 0), same(flavNotOnChain, 2), same(flavOK, 4), op("lsq", "blockno", 0)}
	sub := []c25Op{op("ltxsub", "submit", 1), op("ltxsub", "submit", 0), op("ltxsub", "submit", 0), op("ltxsub", "submit", 1), op("ltxsub", "submit", 1), op("ltxsub", "submit", 0)}
	mixed := append(append(append([]c25Op{}, sub...), mon[:12]...), lsq...)
	for _, h := range []c25History{
		{Family: "ntn", Workers: [][]c25Op{psh}},
		{Family: "ntc", Workers: [][]c25Op{mon}},
		{Family: "ntc", Workers: [][]c25Op{sub}},
		{Family: "ntc", Workers: [][]c25Op{realLsq}},
		{Family: "ntc", Workers: [][]c25Op{realLsq}, Base: 1<<62 - 1000, Top: true},
		{Family: "ntc", Workers: [][]c25Op{realLsq}, Base: 1<<32 - 4},
		{Family: "ntc", Workers: [][]c25Op{mixed}, Base: 65530, Top: true},
		{Family: "lsqraw", Workers: [][]c25Op{rawLsq}},
		{Family: "lsqraw", Workers: [][]c25Op{rawLsq}, Base: 1<<62 - 1000, Top: true},
		{Family: "lsqraw", Workers: [][]c25Op{rawLsq}, Base: 1<<31 - 4},
		{Family: "lsqraw", Workers: [][]c25Op{reuse}},
		{Family: "lsqraw", Workers: [][]c25Op{reuse}, Base: 250, Top: true},
		{Family: "lsqraw", Prologue: reuse[:6], Workers: [][]c25Op{reuse[6:]}},
		{Family: "ntc", Workers: [][]c25Op{realReuse}},
	} {
		c25Play(rec, t, true, h.Family, nil, &rawpeer.SeqPlan{Chunks: []int{3, 0, 64}, Yields: []int{0, 1}}, h, nHang, nErr)
	}
}

// c25Play runs one history, judges it and reports (rapid case or sweep entry).
func c25Play(rec *evi.Recorder, rt c24TB, sweep bool, fam string, planA, planB rawpeer.Plan, h c25History, nHang, nErr *atomic.Int64) {
	desc := h.desc()
	t0 := time.Now()
	run := runHistory(rt, planA, planB, h)
	if os.Getenv("VERIF_DEBUG") != "" {
		fmt.Fprintf(os.Stderr, "C25 %.2fs %s\n", time.Since(t0).Seconds(), desc)
	}
	cs := map[string]any{"history": h, "desc": desc, "calls": run.calls, "server_log": run.events, "client_errors": run.cliErrs, "server_errors": run.srvErrs}
	verdicts, evals := judge(h, run)
	rec.EvalN(evals)
	if sweep {
		rec.Class("sweep_" + fam)
	} else if len(h.Workers) > sendQueueCap {
		rec.Class(fam + "_goroutines_burst")
	} else {
		rec.Class(fmt.Sprintf("%s_goroutines_%d", fam, len(h.Workers)))
	}
	if h.Base != 0 || h.Top {
		rec.Class("special_stamp_values")
	}
	judged := 0
	for _, cl := range run.calls {
		if cl.End != 0 && cl.Err == "" && cl.op.Kind != "release" {
			judged++
			rec.Class("reply_" + cl.op.Proto + "." + cl.op.Kind)
			if cl.op.Proto == "psh" && pshCount(cl.op.Arg) == 0 {
				rec.Class("reply_psh.empty")
			}
			if cl.op.Kind == "hastx" && cl.op.Arg < 0 {
				rec.Class(fmt.Sprintf("reply_txmon.hastx_special_id(%d)", cl.op.Arg))
			}
		}
		if cl.Err != "" {
			rec.Class("error_" + cl.op.Proto + "." + cl.op.Kind)
		}
	}
	if judged >= 2 {
		rec.NonTrivial(desc, map[string]any{"history": desc, "judged_replies": judged, "server_events": len(run.events)})
	}
	for _, v := range verdicts {
		if sweep {
			if !rec.Violation(v.key, v.what, cs) {
				return
			}
			continue
		}
		if !rec.Fail(rt, v.key, v.what, cs) {
			return
		}
	}
	if run.hung {
		nHang.Add(1)
		rec.Class("hang")
		cs["goroutines"] = run.dump
		rt.Fatalf("history did not finish within the bound (not a C25 verdict)\n%s\n%s", desc, run.dump)
	}
	if h.SlowKind != "" {
		// the slow query runs into the client's timeout: every error after that
		// (and, on a loaded machine, before it) is the expected teardown
		rec.Class("slow_query_history")
		for _, cl := range run.calls {
			if cl.Err != "" {
				rec.Class("slow_query_history_call_failed")
				break
			}
		}
		return
	}
	for _, cl := range run.calls {
		if cl.Err != "" && !failureExpected(cl.op) {
			nErr.Add(1)
			if len(verdicts) > 0 {
				return // consequence of a (known) finding
			}
			rt.Fatalf("unexpected error (not a C25 verdict): call g%d#%d %s: %s\nhistory %s\nclient errors %v\nserver errors %v", cl.G, cl.I, cl.Op, cl.Err, desc, run.cliErrs, run.srvErrs)
		}
	}
}

// c25Adversarial is filled in by c25_adversarial_test.go.
