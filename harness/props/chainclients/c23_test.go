package chainclients

import (
	"bytes"
	"encoding/hex"
	"fmt"
	"runtime"
	"strings"
	"sync"
	"testing"
	"time"

	ouroboros "github.com/blinklabs-io/gouroboros"
	"github.com/blinklabs-io/gouroboros/ledger"
	"github.com/blinklabs-io/gouroboros/protocol/blockfetch"
	pcommon "github.com/blinklabs-io/gouroboros/protocol/common"
	"pgregory.net/rapid"

	"verif/harness/internal/evi"
	"verif/harness/internal/rawpeer"
	"verif/harness/internal/xcbor"
)

// ---- case description ----------------------------------------------------------

type blkRef struct {
	Fixture int    `json:"fixture"`
	Salt    uint64 `json:"salt"`
}

func (r blkRef) get() blk { return variant(bases()[r.Fixture], r.Salt) }

// genEBB: whether the 650 KiB epoch boundary block may be drawn. It is switched
// off for connections whose protocol timeouts are scaled down to 300 ms (its
// transfer through a 1-byte-read pipe alone can take longer than that).
var genEBB = false

func genRef(rt *rapid.T, label string) blkRef {
	r := blkRef{Fixture: rapid.IntRange(0, nSmall()-1).Draw(rt, label+"_fixture")}
	if genEBB && rapid.IntRange(0, 39).Draw(rt, label+"_ebb") == 0 {
		r.Fixture = nSmall() // the 650 KiB epoch boundary block: a MsgBlock spanning ~10 segments
	}
	if rapid.IntRange(0, 3).Draw(rt, label+"_variantp") > 0 {
		r.Salt = uint64(rapid.IntRange(1, 1<<20).Draw(rt, label+"_salt"))
	}
	return r
}

const (
	shNoBlocks = "noblocks"       // MsgNoBlocks
	shEmpty    = "empty-batch"    // StartBatch, BatchDone
	shMatch    = "matching-block" // StartBatch, Block(requested), BatchDone
	shNonMatch = "nonmatching-block"
	shSeveral  = "several-blocks" // StartBatch, 2..4 blocks, BatchDone
	shBatch    = "batch"          // range request: StartBatch, 0..n blocks, BatchDone
)

type c23Op struct {
	Kind      string   `json:"kind"` // "single" | "range"
	Shape     string   `json:"shape"`
	ReqHash   string   `json:"req_hash"` // hex; the hash of the requested point
	ReqSlot   uint64   `json:"req_slot"`
	ReqIsRand bool     `json:"req_is_random_hash"`
	EndHash   string   `json:"end_hash,omitempty"` // range: end point
	EndSlot   uint64   `json:"end_slot,omitempty"`
	Serve     []blkRef `json:"serve"`
	Flush     []bool   `json:"flush"`  // flush[i]: write to the conn after message i (last is always flushed)
	GapUs     []int    `json:"gap_us"` // pause after a flush
	SegMax    int      `json:"seg_max"`
	CbDelayUs int      `json:"cb_delay_us"`
}

type c23Case struct {
	Raw        bool    `json:"raw_callback"`
	SkipValid  bool    `json:"skip_block_validation"`
	ClientPlan string  `json:"client_read_plan"`
	ServerPlan string  `json:"server_read_plan"`
	Ops        []c23Op `json:"ops"`
}

func (c *c23Case) hasEBB() bool {
	for _, op := range c.Ops {
		for _, r := range op.Serve {
			if r.Fixture == nSmall() {
				return true
			}
		}
	}
	return false
}

func isBadShape(op c23Op) bool {
	return op.Kind == "single" && (op.Shape == shEmpty || op.Shape == shNonMatch || op.Shape == shSeveral)
}

func genC23Op(rt *rapid.T, i int, last bool, allowBad func(shape string) bool) c23Op {
	l := fmt.Sprintf("op%d", i)
	op := c23Op{}
	if rapid.IntRange(0, 2).Draw(rt, l+"_kind") == 0 {
		op.Kind = "range"
	} else {
		op.Kind = "single"
	}
	op.SegMax = rapid.SampledFrom([]int{0, 0, 700, 4096, 20000}).Draw(rt, l+"_segmax")
	op.CbDelayUs = rapid.SampledFrom([]int{0, 0, 0, 50, 500, 3000}).Draw(rt, l+"_cbdelay")
	nmsg := 0
	if op.Kind == "range" {
		if rapid.IntRange(0, 7).Draw(rt, l+"_noblocks") == 0 {
			op.Shape = shNoBlocks
			nmsg = 1
		} else {
			op.Shape = shBatch
			n := rapid.IntRange(0, 12).Draw(rt, l+"_n")
			for j := 0; j < n; j++ {
				op.Serve = append(op.Serve, genRef(rt, fmt.Sprintf("%s_b%d", l, j)))
			}
			nmsg = n + 2
		}
		if len(op.Serve) > 0 && rapid.Bool().Draw(rt, l+"_ptsFromBlocks") {
			f, e := op.Serve[0].get(), op.Serve[len(op.Serve)-1].get()
			op.ReqHash, op.ReqSlot = hex.EncodeToString(f.Hash), f.Slot
			op.EndHash, op.EndSlot = hex.EncodeToString(e.Hash), e.Slot
		} else {
			h1 := rapid.SliceOfN(rapid.Byte(), 32, 32).Draw(rt, l+"_starthash")
			h2 := rapid.SliceOfN(rapid.Byte(), 32, 32).Draw(rt, l+"_endhash")
			op.ReqHash, op.ReqSlot = hex.EncodeToString(h1), rapid.Uint64Range(0, 1<<40).Draw(rt, l+"_startslot")
			op.EndHash, op.EndSlot = hex.EncodeToString(h2), rapid.Uint64Range(0, 1<<40).Draw(rt, l+"_endslot")
			op.ReqIsRand = true
		}
	} else {
		shapes := []string{shMatch, shMatch, shNoBlocks}
		if last {
			// a misbehaving server ends the case: the client may legitimately
			// tear the connection down when it detects the misbehaviour
			shapes = []string{shMatch, shNoBlocks, shEmpty, shNonMatch, shNonMatch, shSeveral, shSeveral}
		}
		op.Shape = rapid.SampledFrom(shapes).Draw(rt, l+"_shape")
		if isBadShape(op) && !allowBad(op.Shape) {
			op.Shape = shNoBlocks
		}
		want := genRef(rt, l+"_want")
		wb := want.get()
		op.ReqHash, op.ReqSlot = hex.EncodeToString(wb.Hash), wb.Slot
		if rapid.IntRange(0, 4).Draw(rt, l+"_slotrand") == 0 {
			op.ReqSlot = rapid.Uint64Range(0, 1<<40).Draw(rt, l+"_slot")
		}
		other := func(label string) blkRef {
			// a block whose hash differs from the requested one; biased to
			// "a sibling variant of the same fixture" (same slot, same body)
			r := want
			if rapid.Bool().Draw(rt, label+"_sibling") {
				r.Salt = want.Salt + uint64(rapid.IntRange(1, 1000).Draw(rt, label+"_dsalt"))
			} else {
				r = genRef(rt, label)
				if bytes.Equal(r.get().Hash, wb.Hash) {
					r.Salt = want.Salt + 1
				}
			}
			return r
		}
		switch op.Shape {
		case shNoBlocks:
			nmsg = 1
		case shEmpty:
			nmsg = 2
		case shMatch:
			op.Serve = []blkRef{want}
			nmsg = 3
		case shNonMatch:
			if rapid.IntRange(0, 3).Draw(rt, l+"_randreq") == 0 {
				// the requested hash belongs to no block at all
				h := rapid.SliceOfN(rapid.Byte(), 32, 32).Draw(rt, l+"_randhash")
				op.ReqHash = hex.EncodeToString(h)
				op.ReqIsRand = true
				op.Serve = []blkRef{want}
			} else {
				op.Serve = []blkRef{other(l + "_other")}
			}
			nmsg = 3
		case shSeveral:
			n := rapid.IntRange(2, 4).Draw(rt, l+"_n")
			pos := rapid.IntRange(-1, n-1).Draw(rt, l+"_matchpos") // -1: the requested block is not among them
			for j := 0; j < n; j++ {
				if j == pos {
					op.Serve = append(op.Serve, want)
				} else if pos >= 0 && rapid.IntRange(0, 3).Draw(rt, fmt.Sprintf("%s_dup%d", l, j)) == 0 {
					op.Serve = append(op.Serve, want) // the same block twice
				} else {
					op.Serve = append(op.Serve, other(fmt.Sprintf("%s_o%d", l, j)))
				}
			}
			nmsg = n + 2
		}
	}
	flushAll := rapid.IntRange(0, 2).Draw(rt, l+"_flushmode")
	for j := 0; j < nmsg; j++ {
		switch flushAll {
		case 0:
			op.Flush = append(op.Flush, true)
		case 1:
			op.Flush = append(op.Flush, j == nmsg-1)
		default:
			op.Flush = append(op.Flush, rapid.Bool().Draw(rt, fmt.Sprintf("%s_flush%d", l, j)) || j == nmsg-1)
		}
		op.GapUs = append(op.GapUs, rapid.SampledFrom([]int{0, 0, 0, 1, 100, 2000}).Draw(rt, fmt.Sprintf("%s_gap%d", l, j)))
	}
	return op
}

// ---- raw block-fetch server -------------------------------------------------------

func msgBlockBytes(b blk) []byte {
	inner := append([]byte{0x82}, xcbor.U(uint64(b.Type)).Encode()...)
	inner = append(inner, b.Bytes...)
	return xcbor.A(xcbor.U(4), xcbor.Tg(24, xcbor.B(inner))).Encode()
}

func opMessages(op c23Op) [][]byte {
	if op.Shape == shNoBlocks {
		return [][]byte{xcbor.A(xcbor.U(3)).Encode()}
	}
	out := [][]byte{xcbor.A(xcbor.U(2)).Encode()}
	for _, r := range op.Serve {
		out = append(out, msgBlockBytes(r.get()))
	}
	return append(out, xcbor.A(xcbor.U(5)).Encode())
}

func serveOp(p *rawpeer.Peer, op c23Op) error {
	msgs := opMessages(op)
	var pend []byte
	for i, m := range msgs {
		pend = append(pend, m...)
		if op.Flush[i] || i == len(msgs)-1 {
			if err := p.Send(rawpeer.SplitPayload(protoBlockFetch, true, pend, op.SegMax)...); err != nil {
				return err
			}
			pend = nil
			switch g := op.GapUs[i]; {
			case g == 1:
				runtime.Gosched()
			case g > 1:
				time.Sleep(time.Duration(g) * time.Microsecond)
			}
		}
	}
	return nil
}

// ---- callback log ----------------------------------------------------------------

type bfEvent struct {
	Done  bool
	Type  uint
	Bytes []byte
	Hash  []byte // library's Hash() (decoded callback only)
}

type bfLog struct {
	mu      sync.Mutex
	cond    *sync.Cond
	ev      []bfEvent
	delayUs int
}

func (l *bfLog) add(e bfEvent) {
	l.mu.Lock()
	d := l.delayUs
	l.mu.Unlock()
	if d > 0 {
		time.Sleep(time.Duration(d) * time.Microsecond)
	}
	l.mu.Lock()
	l.ev = append(l.ev, e)
	l.cond.Broadcast()
	l.mu.Unlock()
}

func (l *bfLog) waitLen(n int, d time.Duration) []bfEvent {
	deadline := time.Now().Add(d)
	t := time.AfterFunc(d, func() { l.mu.Lock(); l.cond.Broadcast(); l.mu.Unlock() })
	defer t.Stop()
	l.mu.Lock()
	defer l.mu.Unlock()
	for len(l.ev) < n && time.Now().Before(deadline) {
		l.cond.Wait()
	}
	return append([]bfEvent(nil), l.ev...)
}

// ---- the check ---------------------------------------------------------------------

const (
	c23ShortTimeout = 300 * time.Millisecond
	c23HangBound    = 7 * time.Second  // > 20 x the scaled protocol timeouts
	c23GoodBound    = 10 * time.Second // liveness bound for well-behaved servers (expected latency: milliseconds)
)

// hangs already paid for per known finding key (each costs c23HangBound of wall
// time and leaks the wedged goroutines), per process
var (
	c23HangMu   sync.Mutex
	c23HangSeen = map[string]int{}
)

func hangKey(shape string) string { return "getblock:" + shape + ":hang" }

func TestC23(t *testing.T) {
	limitShrinkTime()
	rec := evi.New(t, "C23", evi.Exploration,
		"sequences of 1..4 block-fetch requests on one real NtN connection against a scripted raw server: range requests answered by NoBlocks or StartBatch + 0..12 real blocks (fixtures of every era and salted variants with distinct header hashes) + BatchDone; single-block requests for the hash of a generated block (or a random hash) answered by one of {NoBlocks; StartBatch+BatchDone; +the requested block; +a different block; +2..4 blocks}; generated segment grouping, segment size, read chunking, yields, callback delays, decoded vs raw callback. Non-trivial: a range with >= 2 blocks or a single-block request whose answer contains a block. Distinct by (op kinds, shapes, served block identities, requested hash, grouping).")
	defer rec.Finish()
	rec.Assume(
		"blake2b-256 (golang.org/x/crypto) over the header item located by the harness CBOR parser is the reference block hash",
		"bounded liveness: a call that has not returned 7 s after the server finished its answer, with the client's batch-start and block timeouts scaled to 300 ms, is reported as a hang (goroutine dump attached); a well-behaved server is given 10 s plus 1 s per 20 kB of served blocks",
		"a misbehaving answer is always the last request on its connection: the client may answer misbehaviour by closing the connection",
	)
	maxKnownHangs := rec.Pick(1, 2)

	allowBad := func(shape string) bool {
		if shape == shNonMatch {
			return true
		}
		k := hangKey(shape)
		if !rec.IsKnown(k) {
			return true
		}
		c23HangMu.Lock()
		defer c23HangMu.Unlock()
		return c23HangSeen[k] < maxKnownHangs
	}

	rec.Check(func(rt *rapid.T) {
		cs := c23Case{
			Raw:       rapid.Bool().Draw(rt, "raw"),
			SkipValid: rapid.IntRange(0, 3).Draw(rt, "skipvalid") == 0,
		}
		nops := rapid.IntRange(1, 4).Draw(rt, "nops")
		// the last request first: whether it misbehaves decides the timeouts of
		// the whole connection and with them whether the big EBB may be served
		genEBB = false
		last := genC23Op(rt, nops-1, true, allowBad)
		genEBB = rec.Thorough() && !isBadShape(last)
		for i := 0; i < nops-1; i++ {
			cs.Ops = append(cs.Ops, genC23Op(rt, i, false, allowBad))
		}
		genEBB = false
		cs.Ops = append(cs.Ops, last)
		pc, ps := genPlan(rt, "client"), genPlan(rt, "server")
		if cs.hasEBB() {
			// A 650 KiB block through 1..9-byte reads or in 700-byte segments
			// takes many seconds under load (the protocol read loop re-parses the
			// partial message after every segment); that is performance, not
			// this property. Keep fragmentation and segmentation coarse here.
			pc = &rawpeer.SeqPlan{Chunks: []int{4096, 0, 1000}, Yields: []int{0, 1}}
			ps = nil
			for i := range cs.Ops {
				cs.Ops[i].SegMax = 0
			}
			rec.Class("case_with_ebb")
		}
		cs.ClientPlan, cs.ServerPlan = planDesc(pc), planDesc(ps)
		runC23(rt, rec, cs, pc, ps)
	})
}

func runC23(rt tb, rec *evi.Recorder, cs c23Case, pc, ps rawpeer.Plan) {
	log := &bfLog{}
	log.cond = sync.NewCond(&log.mu)
	opts := []blockfetch.BlockFetchOptionFunc{
		blockfetch.WithBatchStartTimeout(c23ShortTimeout),
		blockfetch.WithBlockTimeout(c23ShortTimeout),
		blockfetch.WithBatchDoneFunc(func(blockfetch.CallbackContext) error {
			log.add(bfEvent{Done: true})
			return nil
		}),
	}
	lastBad := isBadShape(cs.Ops[len(cs.Ops)-1])
	if !lastBad {
		// only misbehaviour needs the scaled-down timeouts; a well-behaved
		// conversation keeps generous ones so machine load cannot fail it
		opts[0] = blockfetch.WithBatchStartTimeout(30 * time.Second)
		opts[1] = blockfetch.WithBlockTimeout(30 * time.Second)
	}
	if cs.Raw {
		opts = append(opts, blockfetch.WithBlockRawFunc(func(_ blockfetch.CallbackContext, typ uint, raw []byte) error {
			log.add(bfEvent{Type: typ, Bytes: append([]byte(nil), raw...)})
			return nil
		}))
	} else {
		opts = append(opts, blockfetch.WithBlockFunc(func(_ blockfetch.CallbackContext, typ uint, b ledger.Block) error {
			log.add(bfEvent{Type: typ, Bytes: append([]byte(nil), b.Cbor()...), Hash: b.Hash().Bytes()})
			return nil
		}))
	}
	cfg, err := blockfetch.NewConfig(opts...)
	if err != nil {
		rt.Fatalf("harness: NewConfig: %v", err)
	}
	cfg.SkipBlockValidation = cs.SkipValid
	s, err := dial(true, pc, ps, ouroboros.WithBlockFetchConfig(cfg))
	if err != nil {
		rt.Fatalf("harness: dial: %v", err)
	}
	defer s.close()
	client := s.oc.BlockFetch().Client

	timedOut := func() bool {
		for _, e := range s.connErrors() {
			if strings.Contains(e, "timeout waiting on transition") {
				return true
			}
		}
		return false
	}
	fail := func(key, what string, extra map[string]any) bool {
		obj := map[string]any{"case": cs, "conn_errors": s.connErrors()}
		for k, v := range extra {
			obj[k] = v
		}
		return rec.Fail(rt, key, what, obj)
	}

	// liveness bound for well-behaved answers: 10 s plus 1 s per 20 kB of blocks
	// served on the connection (fragmented reads, decoding, machine load)
	vol := 0
	for _, op := range cs.Ops {
		for _, r := range op.Serve {
			vol += len(r.get().Bytes)
		}
	}
	goodBound := c23GoodBound + time.Duration(min(vol/20000, 110))*time.Second
	wantLog := 0 // callback events expected so far
	var desc []string
	nontrivial := false
	for i, op := range cs.Ops {
		log.mu.Lock()
		log.delayUs = op.CbDelayUs
		log.mu.Unlock()
		reqHash, _ := hex.DecodeString(op.ReqHash)
		start := pcommon.NewPoint(op.ReqSlot, reqHash)
		end := start
		if op.Kind == "range" {
			eh, _ := hex.DecodeString(op.EndHash)
			end = pcommon.NewPoint(op.EndSlot, eh)
		}
		type result struct {
			blk ledger.Block
			err error
		}
		resCh := make(chan result, 1)
		go func() {
			if op.Kind == "range" {
				resCh <- result{nil, client.GetBlockRange(start, end)}
			} else {
				b, err := client.GetBlock(start)
				resCh <- result{b, err}
			}
		}()
		// the request as seen on the wire must carry the points the caller passed
		req, err := s.peer.NextMsg(protoBlockFetch, false, c23GoodBound)
		if err != nil {
			select {
			case r := <-resCh:
				if timedOut() {
					rec.Class("discarded_load_timeout")
					return
				}
				fail(fmt.Sprintf("request-not-sent:op%d", i), fmt.Sprintf("no RequestRange on the wire (%v); call returned err=%v", err, r.err), nil)
			default:
				fail(fmt.Sprintf("request-not-sent:op%d", i), fmt.Sprintf("no RequestRange on the wire within %v: %v", c23GoodBound, err), map[string]any{"goroutines": goroutineDump("gouroboros")})
			}
			return
		}
		wantReq := xcbor.A(xcbor.U(0), pointNode(start.Slot, start.Hash), pointNode(end.Slot, end.Hash)).Encode()
		if !sameValue(req, wantReq) {
			if !fail("request-mismatch", fmt.Sprintf("RequestRange on the wire %x, want the data of %x", req, wantReq), nil) {
				return
			}
		}
		if err := serveOp(s.peer, op); err != nil {
			// the client closed the connection while the answer was being
			// written; the outcome of the call is judged below as usual
			rec.Class("server_write_failed_connection_closed")
		}
		rec.Class(op.Kind + ":" + op.Shape)
		desc = append(desc, opDesc(op))

		bound := goodBound
		if isBadShape(op) {
			bound = c23HangBound
		}
		var res result
		hung := false
		select {
		case res = <-resCh:
		case <-time.After(bound):
			hung = true
		}
		rec.Eval()

		served := make([]blk, len(op.Serve))
		for j, r := range op.Serve {
			served[j] = r.get()
		}

		if op.Kind == "range" {
			if hung {
				fail("range:"+op.Shape+":call-hang", fmt.Sprintf("GetBlockRange did not return within %v of a complete %s answer", bound, op.Shape),
					map[string]any{"goroutines": goroutineDump("gouroboros")})
				return
			}
			if op.Shape == shNoBlocks {
				if res.err == nil {
					rec.Class("range_noblocks_returned_nil")
				}
				continue
			}
			if res.err != nil {
				if timedOut() {
					rec.Class("discarded_load_timeout")
					return
				}
				fail("range:batch:error", fmt.Sprintf("GetBlockRange failed against a well-behaved server: %v", res.err), nil)
				return
			}
			wantLog += len(served) + 1
			evs := log.waitLen(wantLog, goodBound)
			if len(served) >= 2 {
				nontrivial = true
			}
			got := evs[min(wantLog-len(served)-1, len(evs)):]
			if msg := cmpBatch(got, served, cs.Raw); msg != "" {
				if len(evs) < wantLog && timedOut() {
					rec.Class("discarded_load_timeout")
					return
				}
				extra := map[string]any{"callbacks": evDesc(got)}
				if len(evs) < wantLog {
					extra["goroutines"] = goroutineDump("gouroboros")
				}
				fail("range:batch:"+strings.SplitN(msg, ":", 2)[0], "range request: "+msg, extra)
				return
			}
			continue
		}

		// ---- single-block request ----
		if len(served) > 0 {
			nontrivial = true
		}
		if hung {
			k := hangKey(op.Shape)
			c23HangMu.Lock()
			c23HangSeen[k]++
			c23HangMu.Unlock()
			dump := goroutineDump(fmt.Sprintf("%p", client), "blockfetch")
			// does closing the connection release the caller?
			s.close()
			after := "GetBlock still blocked 2 s after Connection.Close()"
			select {
			case r := <-resCh:
				after = fmt.Sprintf("GetBlock returned err=%v only after Connection.Close()", r.err)
			case <-time.After(2 * time.Second):
			}
			fail(k, fmt.Sprintf("GetBlock did not return within %v (client batch-start/block timeouts %v) after the server answered %s; %s", bound, cfg.BlockTimeout, shapeWire(op), after),
				map[string]any{"goroutines": dump})
			return
		}
		switch op.Shape {
		case shMatch:
			want := served[0]
			if res.err != nil {
				if timedOut() {
					rec.Class("discarded_load_timeout")
					return
				}
				fail("getblock:matching-block:error", fmt.Sprintf("GetBlock failed although the server sent exactly the requested block: %v", res.err), nil)
				return
			}
			if res.blk == nil || !bytes.Equal(res.blk.Cbor(), want.Bytes) || !bytes.Equal(res.blk.Hash().Bytes(), reqHash) {
				fail("getblock:matching-block:wrong-block", fmt.Sprintf("GetBlock returned a block that is not the one served (hash %s, want %s)", blkHash(res.blk), op.ReqHash), nil)
				return
			}
		default:
			if res.err == nil {
				rh := "nil"
				if res.blk != nil {
					rh = blkHash(res.blk)
				}
				what := fmt.Sprintf("GetBlock(hash %s) returned success (block hash %s) after the server answered %s", op.ReqHash, rh, shapeWire(op))
				if !fail("getblock:"+op.Shape+":returned-as-success", what, nil) {
					return
				}
			} else {
				rec.Class("single:" + op.Shape + ":error_ok")
			}
		}
	}
	// no callback may have fired beyond the served batches
	if evs := log.waitLen(wantLog+1, 0); len(evs) != wantLog {
		fail("range:extra-callback", fmt.Sprintf("%d callback events, want %d", len(evs), wantLog), map[string]any{"callbacks": evDesc(evs)})
		return
	}
	if nontrivial {
		d := fmt.Sprintf("raw=%v %s", cs.Raw, strings.Join(desc, " | "))
		rec.NonTrivial(d, map[string]any{"case": cs})
	}
}

func blkHash(b ledger.Block) string {
	if b == nil {
		return "nil"
	}
	return hex.EncodeToString(b.Hash().Bytes())
}

func sameValue(a, b []byte) bool {
	na, e1 := xcbor.ParseExact(a)
	nb, e2 := xcbor.ParseExact(b)
	if e1 != nil || e2 != nil {
		return false
	}
	return eqNode(na, nb)
}

// eqNode compares data-model values (head forms are irrelevant).
func eqNode(a, b *xcbor.Node) bool {
	if a.Kind != b.Kind {
		return false
	}
	switch a.Kind {
	case xcbor.Uint, xcbor.Nint, xcbor.Simple:
		return a.Arg == b.Arg
	case xcbor.Bytes, xcbor.Text:
		return bytes.Equal(a.Payload(), b.Payload())
	case xcbor.Tag:
		if a.Arg != b.Arg {
			return false
		}
	}
	if len(a.Items) != len(b.Items) {
		return false
	}
	for i := range a.Items {
		if !eqNode(a.Items[i], b.Items[i]) {
			return false
		}
	}
	return true
}

func cmpBatch(got []bfEvent, served []blk, raw bool) string {
	for i, b := range served {
		if i >= len(got) {
			return fmt.Sprintf("missing-callback: block callback %d of %d never fired", i, len(served))
		}
		e := got[i]
		if e.Done {
			return fmt.Sprintf("early-batchdone: BatchDone callback fired before block %d of %d", i, len(served))
		}
		if e.Type != b.Type || !bytes.Equal(e.Bytes, b.Bytes) {
			return fmt.Sprintf("wrong-block: callback %d delivered type %d %s.., served type %d %s..", i, e.Type, short(e.Bytes), b.Type, short(b.Bytes))
		}
		if !raw && !bytes.Equal(e.Hash, b.Hash) {
			return fmt.Sprintf("wrong-hash: callback %d block.Hash()=%x, reference %x", i, e.Hash, b.Hash)
		}
	}
	if len(got) <= len(served) {
		return "missing-batchdone: BatchDone callback never fired"
	}
	if !got[len(served)].Done {
		return "extra-block: a block callback fired where BatchDone was due"
	}
	if len(got) > len(served)+1 {
		return "extra-callback: callbacks after BatchDone"
	}
	return ""
}

func evDesc(evs []bfEvent) []string {
	var out []string
	for _, e := range evs {
		if e.Done {
			out = append(out, "BatchDone")
		} else {
			out = append(out, fmt.Sprintf("Block(type %d, %d bytes, %s)", e.Type, len(e.Bytes), short(e.Bytes)))
		}
	}
	return out
}

func opDesc(op c23Op) string {
	var sb strings.Builder
	fmt.Fprintf(&sb, "%s/%s req=%s", op.Kind, op.Shape, op.ReqHash[:12])
	for _, r := range op.Serve {
		fmt.Fprintf(&sb, " %d~%d", r.Fixture, r.Salt)
	}
	fmt.Fprintf(&sb, " f=%v", op.Flush)
	return sb.String()
}

func shapeWire(op c23Op) string {
	switch op.Shape {
	case shNoBlocks:
		return "NoBlocks"
	case shEmpty:
		return "StartBatch, BatchDone (no block)"
	}
	var hs []string
	for _, r := range op.Serve {
		hs = append(hs, "Block("+hex.EncodeToString(r.get().Hash)[:12]+"..)")
	}
	return "StartBatch, " + strings.Join(hs, ", ") + ", BatchDone"
}
