package chainclients

import (
	"bytes"
	"encoding/hex"
	"encoding/json"
	"errors"
	"fmt"
	"os"
	"runtime"
	"strings"
	"sync"
	"testing"
	"time"

	ouroboros "github.com/blinklabs-io/gouroboros"
	"github.com/blinklabs-io/gouroboros/ledger"
	"github.com/blinklabs-io/gouroboros/protocol/blockfetch"
	pcommon "github.com/blinklabs-io/gouroboros/protocol/common"
	"pgregory.net/rapid"

	"verif/harness/internal/evi"
	"verif/harness/internal/rawpeer"
	"verif/harness/internal/xcbor"
)

// ---- case description ----------------------------------------------------------

type blkRef struct {
	Fixture int    `json:"fixture"`
	Salt    uint64 `json:"salt"`
	Pad     int    `json:"pad,omitempty"` // >0: a synthetic one-element CBOR array holding a byte string of this length (raw callback only; sizes around the 64 KiB segment boundary)
}

func (r blkRef) get() blk {
	if r.Pad > 0 {
		p := make([]byte, r.Pad)
		for i := range p {
			p[i] = byte(i*7 + r.Pad)
		}
		return blk{Name: fmt.Sprintf("pad%d", r.Pad), Type: 7, Bytes: xcbor.A(xcbor.B(p)).Encode()}
	}
	return variant(bases()[r.Fixture], r.Salt)
}

// genEBB: whether the 650 KiB epoch boundary block may be drawn (thorough tier,
// connections with generous protocol timeouts only).
var genEBB = false

func genRef(rt *rapid.T, label string) blkRef {
	r := blkRef{Fixture: rapid.IntRange(0, nSmall()-1).Draw(rt, label+"_fixture")}
	if genEBB && rapid.IntRange(0, 39).Draw(rt, label+"_ebb") == 0 {
		r.Fixture = nSmall() // the 650 KiB epoch boundary block: a MsgBlock spanning ~10 segments
	}
	if rapid.IntRange(0, 3).Draw(rt, label+"_variantp") > 0 {
		r.Salt = uint64(rapid.IntRange(1, 1<<20).Draw(rt, label+"_salt"))
	}
	return r
}

const (
	shNoBlocks = "noblocks"       // MsgNoBlocks
	shEmpty    = "empty-batch"    // StartBatch, BatchDone
	shMatch    = "matching-block" // StartBatch, Block(requested), BatchDone
	shNonMatch = "nonmatching-block"
	shSeveral  = "several-blocks" // StartBatch, 2..4 blocks, BatchDone
	shBatch    = "batch"          // range request: StartBatch, 0..n blocks, BatchDone
)

// special values for points
var (
	specialSlots  = []uint64{0, 1, 1 << 32, 1 << 63, ^uint64(0)}
	specialHashes = []string{strings.Repeat("00", 32), strings.Repeat("ff", 32)}
)

type c23Op struct {
	Kind      string   `json:"kind"`             // "single" | "range" | "restart" (client.Stop(); client.Start())
	Queued    bool     `json:"queued,omitempty"` // launched from another goroutine while the previous request is still unanswered (the server's answer is gated by the harness)
	Shape     string   `json:"shape,omitempty"`
	ReqHash   string   `json:"req_hash,omitempty"` // hex; the hash of the requested (start) point
	ReqSlot   uint64   `json:"req_slot,omitempty"`
	ReqOrigin bool     `json:"req_origin,omitempty"` // the (start) point is the origin
	ReqIsRand bool     `json:"req_is_random_hash,omitempty"`
	EndHash   string   `json:"end_hash,omitempty"` // range: end point
	EndSlot   uint64   `json:"end_slot,omitempty"`
	Serve     []blkRef `json:"serve,omitempty"`
	Flush     []bool   `json:"flush,omitempty"`  // flush[i]: write to the conn after message i (last is always flushed)
	GapUs     []int    `json:"gap_us,omitempty"` // pause after a flush
	SegMax    int      `json:"seg_max,omitempty"`
	CbDelayUs int      `json:"cb_delay_us,omitempty"`
	CbErrAt   int      `json:"callback_error_at,omitempty"` // range: the block callback returns an error at this (1-based) block
	Silent    bool     `json:"silent_server,omitempty"`     // the server never answers: the client's 300 ms batch-start timeout has to end the call
}

type c23Case struct {
	Raw        bool    `json:"raw_callback"`
	SkipValid  bool    `json:"skip_block_validation"`
	Scribble   bool    `json:"scribble_received,omitempty"` // raw callback overwrites the slice it was handed (after copying it)
	QueueGapUs int     `json:"queue_gap_us,omitempty"`      // time given to queued callers to reach the client's busy lock
	ClientPlan string  `json:"client_read_plan"`
	ServerPlan string  `json:"server_read_plan"`
	Ops        []c23Op `json:"ops"`
}

func (c *c23Case) hasEBB() bool {
	for _, op := range c.Ops {
		for _, r := range op.Serve {
			if r.Pad == 0 && r.Fixture == nSmall() {
				return true
			}
		}
	}
	return false
}

func (c *c23Case) hasSilent() bool {
	for _, op := range c.Ops {
		if op.Silent {
			return true
		}
	}
	return false
}

func isBadShape(op c23Op) bool {
	return op.Kind == "single" && (op.Shape == shEmpty || op.Shape == shNonMatch || op.Shape == shSeveral)
}

// points returns the points of the call, each with its own fresh hash buffer.
func (op c23Op) points() (start, end pcommon.Point) {
	mk := func(origin bool, slot uint64, h string) pcommon.Point {
		if origin {
			return pcommon.NewPointOrigin()
		}
		b, _ := hex.DecodeString(h)
		return pcommon.NewPoint(slot, b)
	}
	start = mk(op.ReqOrigin, op.ReqSlot, op.ReqHash)
	if op.Kind == "range" {
		end = mk(false, op.EndSlot, op.EndHash)
	} else {
		end = mk(op.ReqOrigin, op.ReqSlot, op.ReqHash)
	}
	return
}

func (op c23Op) wire() []byte {
	st, en := op.points()
	return xcbor.A(xcbor.U(0), pointNode(st.Slot, st.Hash), pointNode(en.Slot, en.Hash)).Encode()
}

func fillFlush(op *c23Op) {
	op.Flush, op.GapUs = nil, nil
	for range opMessages(*op) {
		op.Flush = append(op.Flush, true)
		op.GapUs = append(op.GapUs, 0)
	}
}

func genC23Op(rt *rapid.T, i int) c23Op {
	l := fmt.Sprintf("op%d", i)
	op := c23Op{}
	if rapid.IntRange(0, 2).Draw(rt, l+"_kind") == 0 {
		op.Kind = "range"
	} else {
		op.Kind = "single"
	}
	op.SegMax = rapid.SampledFrom([]int{0, 0, 700, 4096, 20000}).Draw(rt, l+"_segmax")
	op.CbDelayUs = rapid.SampledFrom([]int{0, 0, 0, 50, 500, 3000}).Draw(rt, l+"_cbdelay")
	specSlot := func(label string, dflt uint64) uint64 {
		switch rapid.IntRange(0, 7).Draw(rt, label+"_slotclass") {
		case 0:
			return rapid.SampledFrom(specialSlots).Draw(rt, label+"_specslot")
		case 1:
			return rapid.Uint64Range(0, 1<<40).Draw(rt, label+"_slot")
		}
		return dflt
	}
	randHash := func(label string) string {
		if rapid.IntRange(0, 3).Draw(rt, label+"_spechash") == 0 {
			return rapid.SampledFrom(specialHashes).Draw(rt, label+"_spec")
		}
		return hex.EncodeToString(rapid.SliceOfN(rapid.Byte(), 32, 32).Draw(rt, label))
	}
	if op.Kind == "range" {
		if rapid.IntRange(0, 7).Draw(rt, l+"_noblocks") == 0 {
			op.Shape = shNoBlocks
		} else {
			op.Shape = shBatch
			n := rapid.SampledFrom([]int{0, 1, 1, 2, 3, 5, 8, 12}).Draw(rt, l+"_n")
			for j := 0; j < n; j++ {
				op.Serve = append(op.Serve, genRef(rt, fmt.Sprintf("%s_b%d", l, j)))
			}
		}
		switch pts := rapid.IntRange(0, 5).Draw(rt, l+"_pts"); {
		case len(op.Serve) > 0 && pts <= 2:
			f, e := op.Serve[0].get(), op.Serve[len(op.Serve)-1].get()
			op.ReqHash, op.ReqSlot = hex.EncodeToString(f.Hash), specSlot(l+"_start", f.Slot)
			op.EndHash, op.EndSlot = hex.EncodeToString(e.Hash), specSlot(l+"_end", e.Slot)
		case pts == 3: // start == end
			op.ReqHash, op.ReqSlot = randHash(l+"_samehash"), specSlot(l+"_same", 77)
			op.EndHash, op.EndSlot = op.ReqHash, op.ReqSlot
			op.ReqIsRand = true
		case pts == 4: // from the origin
			op.ReqOrigin = true
			op.EndHash, op.EndSlot = randHash(l+"_endhash"), specSlot(l+"_end", 4242)
			op.ReqIsRand = true
		default:
			op.ReqHash, op.ReqSlot = randHash(l+"_starthash"), specSlot(l+"_start", 1000)
			op.EndHash, op.EndSlot = randHash(l+"_endhash"), specSlot(l+"_end", 2000)
			op.ReqIsRand = true
		}
	} else {
		// misbehaving answers are ordinary steps: the requests after them must
		// still get exactly their own answers (or fail because the client closed
		// the connection)
		op.Shape = rapid.SampledFrom([]string{shMatch, shMatch, shMatch, shMatch, shNoBlocks, shNoBlocks, shEmpty, shNonMatch, shNonMatch, shSeveral}).Draw(rt, l+"_shape")
		want := genRef(rt, l+"_want")
		wb := want.get()
		op.ReqHash, op.ReqSlot = hex.EncodeToString(wb.Hash), specSlot(l+"_req", wb.Slot)
		other := func(label string) blkRef {
			// a block whose hash differs from the requested one; biased to
			// "a sibling variant of the same fixture" (same slot, same body)
			r := want
			if rapid.Bool().Draw(rt, label+"_sibling") {
				r.Salt = want.Salt + uint64(rapid.IntRange(1, 1000).Draw(rt, label+"_dsalt"))
			} else {
				r = genRef(rt, label)
				if bytes.Equal(r.get().Hash, wb.Hash) {
					r.Salt = want.Salt + 1
				}
			}
			return r
		}
		switch op.Shape {
		case shNoBlocks:
			if rapid.IntRange(0, 5).Draw(rt, l+"_origin") == 0 {
				op.ReqOrigin = true
			}
		case shMatch:
			op.Serve = []blkRef{want}
		case shNonMatch:
			switch rapid.IntRange(0, 5).Draw(rt, l+"_randreq") {
			case 0, 1:
				// the requested hash belongs to no block at all
				op.ReqHash = randHash(l + "_randhash")
				op.ReqIsRand = true
				op.Serve = []blkRef{want}
			case 2:
				op.ReqOrigin = true
				op.Serve = []blkRef{want}
			default:
				op.Serve = []blkRef{other(l + "_other")}
			}
		case shSeveral:
			n := rapid.IntRange(2, 4).Draw(rt, l+"_n")
			pos := rapid.IntRange(-1, n-1).Draw(rt, l+"_matchpos") // -1: the requested block is not among them
			for j := 0; j < n; j++ {
				if j == pos {
					op.Serve = append(op.Serve, want)
				} else if pos >= 0 && rapid.IntRange(0, 3).Draw(rt, fmt.Sprintf("%s_dup%d", l, j)) == 0 {
					op.Serve = append(op.Serve, want) // the same block twice
				} else {
					op.Serve = append(op.Serve, other(fmt.Sprintf("%s_o%d", l, j)))
				}
			}
		}
	}
	nmsg := len(opMessages(op))
	flushAll := rapid.IntRange(0, 2).Draw(rt, l+"_flushmode")
	for j := 0; j < nmsg; j++ {
		switch flushAll {
		case 0:
			op.Flush = append(op.Flush, true)
		case 1:
			op.Flush = append(op.Flush, j == nmsg-1)
		default:
			op.Flush = append(op.Flush, rapid.Bool().Draw(rt, fmt.Sprintf("%s_flush%d", l, j)) || j == nmsg-1)
		}
		op.GapUs = append(op.GapUs, rapid.SampledFrom([]int{0, 0, 0, 1, 100, 2000}).Draw(rt, fmt.Sprintf("%s_gap%d", l, j)))
	}
	return op
}

// distinctWire makes the requests of one concurrent group distinguishable on
// the wire (the server recognises a queued request by its points).
func distinctWire(group []c23Op) {
	for j := 1; j < len(group); j++ {
		for tries := 0; tries < 8; tries++ {
			clash := false
			for k := 0; k < j; k++ {
				if bytes.Equal(group[k].wire(), group[j].wire()) {
					clash = true
				}
			}
			if !clash {
				break
			}
			if group[j].Kind == "range" {
				group[j].EndSlot += uint64(j) + 1
			} else if group[j].ReqOrigin {
				// origin is only generated for requests that must fail; any hash
				// that belongs to no block keeps it that way
				group[j].ReqOrigin, group[j].ReqIsRand = false, true
				group[j].ReqHash = strings.Repeat(fmt.Sprintf("%02x", 0x50+j), 32)
			} else {
				group[j].ReqSlot += uint64(j) + 1
			}
		}
	}
}

func genC23Case(rt *rapid.T, thorough bool) c23Case {
	cs := c23Case{
		Raw:        rapid.Bool().Draw(rt, "raw"),
		SkipValid:  rapid.IntRange(0, 3).Draw(rt, "skipvalid") == 0,
		QueueGapUs: rapid.SampledFrom([]int{200, 1000, 3000}).Draw(rt, "queuegap"),
	}
	if cs.Raw {
		cs.Scribble = rapid.Bool().Draw(rt, "scribble")
	}
	final := rapid.SampledFrom([]string{"", "", "", "", "", "", "", "cberr", "silent"}).Draw(rt, "final")
	genEBB = thorough && final != "silent"
	defer func() { genEBB = false }()
	nsteps := rapid.IntRange(1, 4).Draw(rt, "nsteps")
	n := 0
	for st := 0; st < nsteps; st++ {
		if st > 0 && rapid.IntRange(0, 9).Draw(rt, fmt.Sprintf("restart%d", st)) == 0 {
			cs.Ops = append(cs.Ops, c23Op{Kind: "restart"})
		}
		gsize := rapid.SampledFrom([]int{1, 1, 1, 1, 1, 2, 2, 3}).Draw(rt, fmt.Sprintf("gsize%d", st))
		var group []c23Op
		for j := 0; j < gsize; j++ {
			op := genC23Op(rt, n)
			n++
			op.Queued = j > 0
			group = append(group, op)
		}
		distinctWire(group)
		cs.Ops = append(cs.Ops, group...)
	}
	switch final {
	case "cberr":
		op := genC23Op(rt, n)
		op.Kind, op.Shape, op.Serve = "range", shBatch, nil
		nb := rapid.IntRange(1, 5).Draw(rt, "cberr_n")
		for j := 0; j < nb; j++ {
			op.Serve = append(op.Serve, genRef(rt, fmt.Sprintf("cberr_b%d", j)))
		}
		op.ReqOrigin, op.ReqHash, op.ReqSlot, op.EndHash, op.EndSlot = false, specialHashes[0], 5, specialHashes[1], 6
		op.CbErrAt = rapid.IntRange(1, nb).Draw(rt, "cberr_at")
		fillFlush(&op)
		probe := genC23Op(rt, n+1)
		cs.Ops = append(cs.Ops, op, probe)
	case "silent":
		op := genC23Op(rt, n)
		op.Silent, op.Serve, op.Flush, op.GapUs = true, nil, nil, nil
		cs.Ops = append(cs.Ops, op)
		if rapid.Bool().Draw(rt, "silent_queued") {
			q := genC23Op(rt, n+1)
			q.Queued = true
			g := []c23Op{op, q}
			distinctWire(g)
			cs.Ops = append(cs.Ops, g[1])
		}
	}
	if !cs.Raw {
		return cs
	}
	// raw callback only: synthetic blocks whose MsgBlock straddles the 64 KiB
	// segment boundary
	if rapid.IntRange(0, 11).Draw(rt, "pads") == 0 {
		for i := range cs.Ops {
			if cs.Ops[i].Kind == "range" && cs.Ops[i].Shape == shBatch && cs.Ops[i].CbErrAt == 0 && !cs.Ops[i].Silent {
				k := rapid.IntRange(1, 3).Draw(rt, "npads")
				for j := 0; j < k; j++ {
					cs.Ops[i].Serve = append(cs.Ops[i].Serve, blkRef{Pad: rapid.IntRange(65500, 65540).Draw(rt, "pad")})
				}
				fillFlush(&cs.Ops[i])
				break
			}
		}
	}
	return cs
}

// ---- raw block-fetch server -------------------------------------------------------

func msgBlockBytes(b blk) []byte {
	inner := append([]byte{0x82}, xcbor.U(uint64(b.Type)).Encode()...)
	inner = append(inner, b.Bytes...)
	return xcbor.A(xcbor.U(4), xcbor.Tg(24, xcbor.B(inner))).Encode()
}

func opMessages(op c23Op) [][]byte {
	if op.Shape == shNoBlocks {
		return [][]byte{xcbor.A(xcbor.U(3)).Encode()}
	}
	out := [][]byte{xcbor.A(xcbor.U(2)).Encode()}
	for _, r := range op.Serve {
		out = append(out, msgBlockBytes(r.get()))
	}
	return append(out, xcbor.A(xcbor.U(5)).Encode())
}

func serveOp(p *rawpeer.Peer, op c23Op) error {
	msgs := opMessages(op)
	var pend []byte
	for i, m := range msgs {
		pend = append(pend, m...)
		if op.Flush[i] || i == len(msgs)-1 {
			if err := p.Send(rawpeer.SplitPayload(protoBlockFetch, true, pend, op.SegMax)...); err != nil {
				return err
			}
			pend = nil
			switch g := op.GapUs[i]; {
			case g == 1:
				runtime.Gosched()
			case g > 1:
				time.Sleep(time.Duration(g) * time.Microsecond)
			}
		}
	}
	return nil
}

// ---- callback log ----------------------------------------------------------------

type bfEvent struct {
	Done  bool
	Type  uint
	Bytes []byte       // copy taken inside the callback
	Hash  []byte       // library's Hash() (decoded callback only)
	keep  []byte       // raw callback: the very slice the library handed over (not copied)
	obj   ledger.Block // decoded callback: the very object the library handed over
}

var errHarnessCallback = errors.New("harness: the block callback refuses this block")

type bfLog struct {
	mu      sync.Mutex
	cond    *sync.Cond
	ev      []bfEvent
	delayUs int
	errAt   int // the callback that makes the log this long returns an error (0: never)
}

func (l *bfLog) add(e bfEvent) error {
	l.mu.Lock()
	d := l.delayUs
	l.mu.Unlock()
	if d > 0 {
		time.Sleep(time.Duration(d) * time.Microsecond)
	}
	l.mu.Lock()
	defer l.mu.Unlock()
	l.ev = append(l.ev, e)
	l.cond.Broadcast()
	if l.errAt > 0 && len(l.ev) == l.errAt {
		return errHarnessCallback
	}
	return nil
}

func (l *bfLog) waitLen(n int, d time.Duration) []bfEvent {
	deadline := time.Now().Add(d)
	t := time.AfterFunc(d, func() { l.mu.Lock(); l.cond.Broadcast(); l.mu.Unlock() })
	defer t.Stop()
	l.mu.Lock()
	defer l.mu.Unlock()
	for len(l.ev) < n && time.Now().Before(deadline) {
		l.cond.Wait()
	}
	return append([]bfEvent(nil), l.ev...)
}

// ---- the check ---------------------------------------------------------------------

const (
	c23ShortTimeout = 300 * time.Millisecond
	c23GoodBound    = 10 * time.Second // liveness bound (expected latency: milliseconds), scaled by volume and measured machine load
)

func hangKey(shape string) string { return "getblock:" + shape + ":hang" }

// fixedTB lets the deterministic sweep run the case runner outside rapid: a
// failure marks the test failed (the recorder then reports the violation it
// stored) and aborts the case.
type fixedTB struct{ t *testing.T }
type fixedAbort struct{}

func (f fixedTB) Fatalf(format string, a ...any) { f.t.Errorf(format, a...); panic(fixedAbort{}) }
func (f fixedTB) Helper()                        {}

func runFixed(fn func()) (ok bool) {
	defer func() {
		if p := recover(); p != nil {
			if _, is := p.(fixedAbort); !is {
				panic(p)
			}
			ok = false
		}
	}()
	fn()
	return true
}

func TestC23(t *testing.T) {
	limitShrinkTime()
	rec := evi.New(t, "C23", evi.Exploration,
		"histories of block-fetch requests on one real NtN connection (one client re-used for the whole history) against a scripted raw server: 1..4 steps, each a single request or a group of 2..3 requests issued concurrently from different goroutines while the first is still unanswered (the server's answer is gated), optionally Stop()/Start() of the client between steps, optionally ended by a block callback that returns an error or by a server that never answers (300 ms timeout) with a request queued behind. Range requests are answered by NoBlocks or StartBatch + 0..12 real blocks (fixtures of every era, salted variants with distinct header hashes, raw mode also synthetic blocks around the 64 KiB segment boundary) + BatchDone; single-block requests for the hash of a generated block, a random / all-zero / all-0xff hash or the origin are answered by one of {NoBlocks; StartBatch+BatchDone; +the requested block; +a different block; +2..4 blocks} at any position of the history; slots biased to 0, 1, 2^32, 2^63, 2^64-1, ranges with start == end or from the origin; generated segment grouping, segment size, read chunking, yields, callback delays, decoded vs raw callback (optionally overwriting what it was handed). A deterministic sweep of ~40 fixed histories (concurrent pairs/triples, special points, segment-boundary blocks, failure steps followed by more requests, restarts) runs first at every seed. Non-trivial: a range with >= 2 blocks or a single-block request whose answer contains a block. Distinct by (op kinds, grouping, shapes, served block identities, requested points).")
	defer rec.Finish()
	rec.Assume(
		"blake2b-256 (golang.org/x/crypto) over the header item located by the harness CBOR parser is the reference block hash",
		"bounded liveness: a call that has not returned within 10 s (+1 s per 20 kB of served blocks, times a load factor 1..6 measured from the duration of the connection set-up) of the server finishing its answer is reported as a hang (goroutine dump attached)",
		"after a misbehaving answer, a callback error or a timeout the client may close the connection; the remaining calls must then fail instead of hanging or succeeding. If it keeps the connection, later requests must get exactly their own answers",
		"Stop() followed by Start() of the block-fetch client between two requests gives a usable client on the same connection",
	)

	for _, fc := range fixedC23Cases() {
		fc := fc
		ok := runFixed(func() {
			rec.Class("fixed_sweep")
			runC23(fixedTB{t}, rec, fc.cs, nil, nil)
		})
		if !ok {
			fmt.Printf("fixed C23 case %q failed\n", fc.name)
			return
		}
	}

	rec.Check(func(rt *rapid.T) {
		cs := genC23Case(rt, rec.Thorough())
		pc, ps := genPlan(rt, "client"), genPlan(rt, "server")
		if cs.hasEBB() {
			// A 650 KiB block through 1..9-byte reads or in 700-byte segments
			// takes many seconds under load (the protocol read loop re-parses the
			// partial message after every segment); that is performance, not
			// this property. Keep fragmentation and segmentation coarse here.
			pc = &rawpeer.SeqPlan{Chunks: []int{4096, 0, 1000}, Yields: []int{0, 1}}
			ps = nil
			for i := range cs.Ops {
				cs.Ops[i].SegMax = 0
			}
			rec.Class("case_with_ebb")
		}
		cs.ClientPlan, cs.ServerPlan = planDesc(pc), planDesc(ps)
		t0 := time.Now()
		runC23(rt, rec, cs, pc, ps)
		if d := time.Since(t0); d > 5*time.Second && os.Getenv("C23_TIMING") != "" {
			b, _ := json.Marshal(cs)
			fmt.Printf("TIMING %.1f %s\n", d.Seconds(), b)
		}
	})
}

type bfResult struct {
	blk ledger.Block
	err error
}

type bfCall struct {
	op       c23Op
	idx      int
	wire     []byte
	resCh    chan bfResult
	launched bool
	done     bool
}

func runC23(rt tb, rec *evi.Recorder, cs c23Case, pc, ps rawpeer.Plan) {
	log := &bfLog{}
	log.cond = sync.NewCond(&log.mu)
	to := 30 * time.Second
	if cs.hasSilent() {
		// only a server that never answers needs the scaled-down timeout
		to = c23ShortTimeout
	}
	opts := []blockfetch.BlockFetchOptionFunc{
		blockfetch.WithBatchStartTimeout(to),
		blockfetch.WithBlockTimeout(to),
		blockfetch.WithBatchDoneFunc(func(blockfetch.CallbackContext) error {
			_ = log.add(bfEvent{Done: true})
			return nil
		}),
	}
	if cs.Raw {
		opts = append(opts, blockfetch.WithBlockRawFunc(func(_ blockfetch.CallbackContext, typ uint, raw []byte) error {
			e := bfEvent{Type: typ, Bytes: append([]byte(nil), raw...)}
			if cs.Scribble {
				for i := range raw {
					raw[i] = 0xEE
				}
			} else {
				e.keep = raw
			}
			return log.add(e)
		}))
	} else {
		opts = append(opts, blockfetch.WithBlockFunc(func(_ blockfetch.CallbackContext, typ uint, b ledger.Block) error {
			return log.add(bfEvent{Type: typ, Bytes: append([]byte(nil), b.Cbor()...), Hash: b.Hash().Bytes(), obj: b})
		}))
	}
	cfg, err := blockfetch.NewConfig(opts...)
	if err != nil {
		rt.Fatalf("harness: NewConfig: %v", err)
	}
	cfg.SkipBlockValidation = cs.SkipValid
	t0 := time.Now()
	s, err := dial(true, pc, ps, ouroboros.WithBlockFetchConfig(cfg))
	if err != nil {
		rt.Fatalf("harness: dial: %v", err)
	}
	defer s.close()
	client := s.oc.BlockFetch().Client
	// load factor: the connection set-up takes 1-3 ms on an idle machine
	lf := time.Since(t0) / (10 * time.Millisecond)
	lf = max(1, min(lf, 6))

	timedOut := func() bool {
		for _, e := range s.connErrors() {
			if strings.Contains(e, "timeout waiting on transition") {
				return true
			}
		}
		return false
	}
	// A call can return "protocol is shutting down" before the timeout error that
	// caused it has travelled through the connection's error channel: on
	// connections with the scaled-down timeout give it a moment to show up.
	timedOutSoon := func() bool {
		if !cs.hasSilent() {
			return timedOut()
		}
		deadline := time.Now().Add(2 * time.Second * lf)
		for !timedOut() && time.Now().Before(deadline) {
			time.Sleep(2 * time.Millisecond)
		}
		return timedOut()
	}
	gone := func() bool { return len(s.connErrors()) > 0 || s.peer.ReadErr() != nil }
	fail := func(key, what string, extra map[string]any) bool {
		obj := map[string]any{"case": cs, "conn_errors": s.connErrors()}
		for k, v := range extra {
			obj[k] = v
		}
		return rec.Fail(rt, key, what, obj)
	}

	vol := 0
	for _, op := range cs.Ops {
		for _, r := range op.Serve {
			vol += len(r.get().Bytes)
		}
	}
	bound := (c23GoodBound + time.Duration(min(vol/20000, 110))*time.Second) * lf

	wantLog := 0 // callback events expected so far
	var desc []string
	nontrivial := false
	mayDie := false // the server misbehaved / a callback failed / a timeout fired: the client may close the connection
	dead := false   // ... and it did
	cbFailed := false
	type kept struct {
		b    ledger.Block
		want blk
	}
	var results []kept

	launch := func(c *bfCall) {
		c.launched = true
		start, end := c.op.points()
		go func() {
			var r bfResult
			if c.op.Kind == "range" {
				r.err = client.GetBlockRange(start, end)
			} else {
				r.blk, r.err = client.GetBlock(start)
			}
			// the caller owns the hash buffers it passed in: overwrite them
			for i := range start.Hash {
				start.Hash[i] = 0xA5
			}
			for i := range end.Hash {
				end.Hash[i] = 0x5A
			}
			c.resCh <- r
		}()
	}
	await := func(c *bfCall, d time.Duration) (bfResult, bool) {
		select {
		case r := <-c.resCh:
			return r, true
		case <-time.After(d):
			return bfResult{}, false
		}
	}

	// judge one call after its request was seen on the wire; false = stop the case
	judge := func(c *bfCall) bool {
		op := c.op
		log.mu.Lock()
		log.delayUs = op.CbDelayUs
		if op.CbErrAt > 0 {
			log.errAt = wantLog + op.CbErrAt
		}
		log.mu.Unlock()
		rec.Class(op.Kind + ":" + op.Shape)
		desc = append(desc, opDesc(op))
		rec.Eval()
		served := make([]blk, len(op.Serve))
		for j, r := range op.Serve {
			served[j] = r.get()
		}
		if op.Silent {
			rec.Class("silent_server")
			res, ok := await(c, bound)
			mayDie, dead = true, true
			if !ok {
				fail(op.Kind+":silent-server:hang", fmt.Sprintf("the call did not return within %v although the server never answered and the client's batch-start timeout is %v", bound, c23ShortTimeout),
					map[string]any{"goroutines": goroutineDump(fmt.Sprintf("%p", client), "blockfetch")})
				return false
			}
			if res.err == nil {
				return fail(op.Kind+":silent-server:returned-as-success", "the call returned success although the server never answered", nil)
			}
			return true
		}
		if err := serveOp(s.peer, op); err != nil {
			// the client closed the connection while the answer was being
			// written; the outcome of the call is judged below as usual
			rec.Class("server_write_failed_connection_closed")
		}
		if isBadShape(op) {
			mayDie = true
		}
		res, ok := await(c, bound)
		hung := !ok

		if op.Kind == "range" {
			if hung {
				fail("range:"+op.Shape+":call-hang", fmt.Sprintf("GetBlockRange did not return within %v of a complete %s answer", bound, op.Shape),
					map[string]any{"goroutines": goroutineDump(fmt.Sprintf("%p", client), "blockfetch")})
				return false
			}
			if op.Shape == shNoBlocks {
				if res.err == nil {
					rec.Class("range_noblocks_returned_nil")
				}
				return true
			}
			if res.err != nil {
				if timedOutSoon() {
					rec.Class("discarded_load_timeout")
					return false
				}
				if mayDie && gone() {
					dead = true
					return true
				}
				fail("range:batch:error", fmt.Sprintf("GetBlockRange failed against a well-behaved server: %v", res.err), nil)
				return false
			}
			if len(served) >= 2 {
				nontrivial = true
			}
			if op.CbErrAt > 0 {
				// blocks up to the refused one are delivered faithfully; afterwards the
				// client may give up the connection
				evs := log.waitLen(wantLog+op.CbErrAt, bound)
				got := evs[min(wantLog, len(evs)):]
				mayDie, cbFailed = true, true
				if len(got) < op.CbErrAt {
					fail("range:batch:missing-callback", fmt.Sprintf("range request: only %d of the %d block callbacks before the refused block fired", len(got), op.CbErrAt), map[string]any{"callbacks": evDesc(got), "goroutines": goroutineDump(fmt.Sprintf("%p", client), "blockfetch")})
					return false
				}
				for j := 0; j < op.CbErrAt; j++ {
					if msg := cmpBatch(got[j:j+1], served[j:j+1], cs.Raw); msg != "" && !strings.HasPrefix(msg, "missing-batchdone") {
						fail("range:batch:"+strings.SplitN(msg, ":", 2)[0], fmt.Sprintf("range request, callback %d: %s", j, msg), map[string]any{"callbacks": evDesc(got)})
						return false
					}
				}
				deadline := time.Now().Add(2 * time.Second * lf)
				for !gone() && time.Now().Before(deadline) {
					time.Sleep(time.Millisecond)
				}
				dead = gone()
				if !dead {
					rec.Class("callback_error_connection_kept")
				}
				wantLog = len(log.waitLen(0, 0))
				return true
			}
			wantLog += len(served) + 1
			evs := log.waitLen(wantLog, bound)
			got := evs[min(wantLog-len(served)-1, len(evs)):]
			if msg := cmpBatch(got, served, cs.Raw); msg != "" {
				if len(evs) < wantLog && timedOutSoon() {
					rec.Class("discarded_load_timeout")
					return false
				}
				if len(evs) < wantLog && mayDie && gone() {
					dead = true
					return true
				}
				extra := map[string]any{"callbacks": evDesc(got)}
				if len(evs) < wantLog {
					extra["goroutines"] = goroutineDump(fmt.Sprintf("%p", client), "blockfetch")
				}
				fail("range:batch:"+strings.SplitN(msg, ":", 2)[0], "range request: "+msg, extra)
				return false
			}
			return true
		}

		// ---- single-block request ----
		if len(served) > 0 {
			nontrivial = true
		}
		reqHash, _ := hex.DecodeString(op.ReqHash)
		if op.ReqOrigin {
			reqHash = nil
		}
		if hung {
			dump := goroutineDump(fmt.Sprintf("%p", client), "blockfetch")
			// does closing the connection release the caller?
			s.close()
			after := "GetBlock still blocked 2 s after Connection.Close()"
			if r, ok := await(c, 2*time.Second); ok {
				after = fmt.Sprintf("GetBlock returned err=%v only after Connection.Close()", r.err)
			}
			fail(hangKey(op.Shape), fmt.Sprintf("GetBlock did not return within %v (client batch-start/block timeouts %v) after the server answered %s; %s", bound, cfg.BlockTimeout, shapeWire(op), after),
				map[string]any{"goroutines": dump})
			return false
		}
		switch op.Shape {
		case shMatch:
			want := served[0]
			if res.err != nil {
				if timedOutSoon() {
					rec.Class("discarded_load_timeout")
					return false
				}
				if mayDie && gone() {
					dead = true
					return true
				}
				fail("getblock:matching-block:error", fmt.Sprintf("GetBlock failed although the server sent exactly the requested block: %v", res.err), nil)
				return false
			}
			if res.blk == nil || !bytes.Equal(res.blk.Cbor(), want.Bytes) || !bytes.Equal(res.blk.Hash().Bytes(), reqHash) {
				fail("getblock:matching-block:wrong-block", fmt.Sprintf("GetBlock returned a block that is not the one served (hash %s, want %s)", blkHash(res.blk), op.ReqHash), nil)
				return false
			}
			results = append(results, kept{res.blk, want})
		default:
			if res.err == nil {
				what := fmt.Sprintf("GetBlock(hash %s) returned success (block hash %s) after the server answered %s", op.ReqHash, blkHash(res.blk), shapeWire(op))
				if !fail("getblock:"+op.Shape+":returned-as-success", what, nil) {
					return false
				}
			} else {
				rec.Class("single:" + op.Shape + ":error_ok")
			}
		}
		return true
	}

	// the remaining calls of a connection the client has given up must fail
	drainDead := func(calls []*bfCall) bool {
		for _, c := range calls {
			if c.done {
				continue
			}
			if !c.launched {
				launch(c)
			}
			c.done = true
			rec.Eval()
			rec.Class("call_on_closed_connection")
			res, ok := await(c, bound)
			if !ok {
				fail("after-connection-end:"+c.op.Kind+":hang", fmt.Sprintf("the connection has ended (%v) but the %s call did not return within %v", s.connErrors(), c.op.Kind, bound),
					map[string]any{"goroutines": goroutineDump(fmt.Sprintf("%p", client), "blockfetch")})
				return false
			}
			if res.err == nil && !(c.op.Kind == "range" && c.op.Shape == shNoBlocks) {
				if !fail("after-connection-end:"+c.op.Kind+":returned-as-success", fmt.Sprintf("the connection has ended (%v) and the server answered nothing, yet the %s call returned success", s.connErrors(), c.op.Kind), nil) {
					return false
				}
			}
		}
		return true
	}

	for i := 0; i < len(cs.Ops); {
		if cs.Ops[i].Kind == "restart" {
			i++
			if dead {
				continue
			}
			rec.Class("restart")
			desc = append(desc, "restart")
			fin := make(chan error, 1)
			go func() { fin <- client.Stop() }()
			select {
			case <-fin:
			case <-time.After(bound):
				fail("restart:stop-hang", fmt.Sprintf("blockfetch Client.Stop() between two requests did not return within %v", bound), map[string]any{"goroutines": goroutineDump(fmt.Sprintf("%p", client), "blockfetch")})
				return
			}
			client.Start()
			continue
		}
		j := i + 1
		for j < len(cs.Ops) && cs.Ops[j].Queued {
			j++
		}
		var calls []*bfCall
		for k := i; k < j; k++ {
			calls = append(calls, &bfCall{op: cs.Ops[k], idx: k, wire: cs.Ops[k].wire(), resCh: make(chan bfResult, 1)})
		}
		i = j
		if len(calls) > 1 {
			rec.Class(fmt.Sprintf("concurrent_group_of_%d", len(calls)))
			desc = append(desc, "{")
		}
		if dead {
			if !drainDead(calls) {
				return
			}
			continue
		}
		launch(calls[0])
		for answered := 0; answered < len(calls); {
			if dead {
				if !drainDead(calls) {
					return
				}
				break
			}
			req, err := s.peer.NextMsg(protoBlockFetch, false, bound)
			if err != nil {
				if mayDie && gone() {
					dead = true
					continue
				}
				if timedOutSoon() {
					rec.Class("discarded_load_timeout")
					return
				}
				fail(fmt.Sprintf("request-not-sent:op%d", calls[0].idx), fmt.Sprintf("no RequestRange on the wire within %v (%v) although %d call(s) are waiting", bound, err, len(calls)-answered),
					map[string]any{"goroutines": goroutineDump(fmt.Sprintf("%p", client), "blockfetch")})
				return
			}
			if sameValue(req, []byte{0x81, 0x01}) {
				rec.Class("client_done_seen") // from a restart
				continue
			}
			if answered == 0 && len(calls) > 1 {
				// the first request is on the wire and unanswered: now the other
				// callers arrive and queue behind it
				for _, c := range calls[1:] {
					launch(c)
					runtime.Gosched()
				}
				time.Sleep(time.Duration(cs.QueueGapUs) * time.Microsecond * lf)
			}
			var cur *bfCall
			for _, c := range calls {
				if c.launched && !c.done && sameValue(req, c.wire) {
					cur = c
					break
				}
			}
			if cur == nil {
				var want []string
				for _, c := range calls {
					if c.launched && !c.done {
						want = append(want, fmt.Sprintf("%x", c.wire))
					}
				}
				fail("request-mismatch", fmt.Sprintf("RequestRange on the wire %x carries the points of none of the waiting calls (their requests: %v)", req, want), nil)
				return
			}
			cur.done = true
			answered++
			if !judge(cur) {
				return
			}
		}
		if len(calls) > 1 {
			desc = append(desc, "}")
		}
	}

	// no callback may have fired beyond the served batches
	evs := log.waitLen(wantLog+1, 0)
	if !cbFailed && len(evs) != wantLog {
		fail("range:extra-callback", fmt.Sprintf("%d callback events, want %d", len(evs), wantLog), map[string]any{"callbacks": evDesc(evs)})
		return
	}
	// everything handed to a callback or returned by GetBlock still is what it was
	for k, e := range evs {
		if e.keep != nil && !bytes.Equal(e.keep, e.Bytes) {
			fail("callback-value-changed-later:raw", fmt.Sprintf("the slice handed to block callback %d (%d bytes, %s..) was modified after the callback returned (now %s..)", k, len(e.Bytes), short(e.Bytes), short(e.keep)), nil)
			return
		}
		if e.obj != nil && (!bytes.Equal(e.obj.Cbor(), e.Bytes) || !bytes.Equal(e.obj.Hash().Bytes(), e.Hash)) {
			fail("callback-value-changed-later:block", fmt.Sprintf("the block handed to block callback %d changed after the callback returned", k), nil)
			return
		}
	}
	for k, r := range results {
		if !bytes.Equal(r.b.Cbor(), r.want.Bytes) || !bytes.Equal(r.b.Hash().Bytes(), r.want.Hash) {
			fail("getblock:result-changed-later", fmt.Sprintf("the block returned by GetBlock call %d changed after later requests on the same client", k), nil)
			return
		}
	}
	if nontrivial {
		d := fmt.Sprintf("raw=%v scribble=%v %s", cs.Raw, cs.Scribble, strings.Join(desc, " | "))
		rec.NonTrivial(d, map[string]any{"case": cs})
	}
}

// ---- deterministic sweep ------------------------------------------------------------

type namedC23 struct {
	name string
	cs   c23Case
}

func fixedC23Cases() []namedC23 {
	ref := func(f int, salt uint64) blkRef { return blkRef{Fixture: f, Salt: salt} }
	single := func(shape string, want blkRef, serve ...blkRef) c23Op {
		w := want.get()
		op := c23Op{Kind: "single", Shape: shape, ReqHash: hex.EncodeToString(w.Hash), ReqSlot: w.Slot, Serve: serve}
		if shape == shMatch {
			op.Serve = []blkRef{want}
		}
		fillFlush(&op)
		return op
	}
	rng := func(serve ...blkRef) c23Op {
		op := c23Op{Kind: "range", Shape: shBatch, Serve: serve, ReqHash: specialHashes[0], ReqSlot: 10, EndHash: specialHashes[1], EndSlot: 20}
		if len(serve) > 0 {
			f, e := serve[0].get(), serve[len(serve)-1].get()
			if f.Hash != nil && e.Hash != nil {
				op.ReqHash, op.ReqSlot, op.EndHash, op.EndSlot = hex.EncodeToString(f.Hash), f.Slot, hex.EncodeToString(e.Hash), e.Slot
			}
		}
		fillFlush(&op)
		return op
	}
	queued := func(op c23Op) c23Op { op.Queued = true; return op }
	var out []namedC23
	add := func(name string, raw bool, ops ...c23Op) {
		for i := 0; i < len(ops); {
			j := i + 1
			for j < len(ops) && ops[j].Queued {
				j++
			}
			distinctWire(ops[i:j])
			i = j
		}
		out = append(out, namedC23{name, c23Case{Raw: raw, QueueGapUs: 3000, Ops: ops}})
	}
	for _, raw := range []bool{false, true} {
		m := fmt.Sprintf("/raw=%v", raw)
		// (1) concurrent callers on one client: the in-flight request keeps its own answer
		add("conc:single+range"+m, raw, single(shMatch, ref(2, 0)), queued(rng(ref(0, 0), ref(3, 1), ref(5, 0))), single(shMatch, ref(4, 2)))
		add("conc:range+single"+m, raw, rng(ref(4, 0), ref(6, 0)), queued(single(shMatch, ref(1, 0))), rng(ref(7, 0)))
		add("conc:single+single"+m, raw, single(shMatch, ref(2, 7)), queued(single(shMatch, ref(2, 8))))
		add("conc:range+range"+m, raw, rng(ref(8, 0), ref(9, 0)), queued(rng(ref(9, 1), ref(8, 1), ref(0, 2))))
		add("conc:three"+m, raw, single(shMatch, ref(3, 0)), queued(rng(ref(1, 0), ref(1, 1))), queued(single(shMatch, ref(5, 5))))
		add("conc:noblocks+range+single"+m, raw, single(shNoBlocks, ref(3, 0)), queued(rng(ref(2, 0))), queued(single(shMatch, ref(6, 1))))
		// (3) failure steps followed by more requests
		add("fail-steps"+m, raw,
			single(shNoBlocks, ref(0, 0)), single(shEmpty, ref(1, 0)), single(shMatch, ref(1, 0)),
			single(shNonMatch, ref(2, 0), ref(2, 1)), single(shMatch, ref(2, 0)),
			single(shSeveral, ref(3, 0), ref(3, 0), ref(3, 1)), rng(ref(3, 0), ref(4, 0)),
			func() c23Op { o := rng(); o.Shape = shNoBlocks; fillFlush(&o); return o }(), single(shMatch, ref(5, 0)), rng(), rng(ref(6, 0)))
		add("restart"+m, raw, single(shMatch, ref(2, 0)), c23Op{Kind: "restart"}, rng(ref(0, 0), ref(1, 0)), c23Op{Kind: "restart"}, single(shMatch, ref(7, 0)),
			single(shNoBlocks, ref(7, 0)), c23Op{Kind: "restart"}, single(shMatch, ref(8, 0)))
		cbe := rng(ref(4, 0), ref(5, 0), ref(6, 0))
		cbe.CbErrAt = 2
		add("callback-error"+m, raw, single(shMatch, ref(1, 0)), cbe, single(shMatch, ref(2, 0)), rng(ref(3, 0)))
		sil := single(shMatch, ref(2, 0))
		sil.Silent = true
		add("silent-server-with-queued"+m, raw, single(shMatch, ref(1, 0)), sil, queued(rng(ref(3, 0))), single(shMatch, ref(4, 0)))
	}
	// (2) special values
	for k, slot := range specialSlots {
		o := single(shMatch, ref(k%nSmall(), 0))
		o.ReqSlot = slot
		r := rng(ref((k+1)%nSmall(), 0))
		r.ReqSlot, r.ReqHash = slot, specialHashes[k%2]
		r.EndSlot, r.EndHash = specialSlots[(k+2)%len(specialSlots)], specialHashes[(k+1)%2]
		same := rng(ref((k+2)%nSmall(), 3))
		same.ReqSlot, same.ReqHash = slot, specialHashes[k%2]
		same.EndSlot, same.EndHash = same.ReqSlot, same.ReqHash
		nm := single(shNonMatch, ref(1, 0), ref(1, 0))
		nm.ReqSlot, nm.ReqHash, nm.ReqIsRand = slot, specialHashes[k%2], true
		add(fmt.Sprintf("special:slot=%d", slot), k%2 == 0, o, r, same, nm, single(shMatch, ref(3, uint64(k))))
	}
	orig := rng(ref(0, 0), ref(1, 0))
	orig.ReqOrigin = true
	zero := rng(ref(2, 0))
	zero.ReqSlot, zero.ReqHash = 0, specialHashes[0] // [0, 00..00] is not the origin
	so := single(shNoBlocks, ref(0, 0))
	so.ReqOrigin = true
	sn := single(shNonMatch, ref(0, 0), ref(0, 0))
	sn.ReqOrigin = true
	add("special:origin", false, orig, zero, so, sn, single(shMatch, ref(4, 0)))
	var many []blkRef
	for k := 0; k < 12; k++ {
		many = append(many, ref(k%nSmall(), uint64(k/nSmall())))
	}
	add("special:batch-sizes", true, rng(), rng(ref(5, 0)), rng(many...), rng(), single(shMatch, ref(0, 0)))
	// blocks whose MsgBlock ends just before / on / after the 65535-byte segment boundary
	var pads []blkRef
	for _, p := range []int{65505, 65515, 65518, 65519, 65520, 65521, 65522, 65523, 65524, 65530} {
		pads = append(pads, blkRef{Pad: p})
	}
	add("special:segment-boundary", true, rng(pads...), single(shMatch, ref(1, 0)))
	return out
}

func blkHash(b ledger.Block) string {
	if b == nil {
		return "nil"
	}
	return hex.EncodeToString(b.Hash().Bytes())
}

func sameValue(a, b []byte) bool {
	na, e1 := xcbor.ParseExact(a)
	nb, e2 := xcbor.ParseExact(b)
	if e1 != nil || e2 != nil {
		return false
	}
	return eqNode(na, nb)
}

// eqNode compares data-model values (head forms are irrelevant).
func eqNode(a, b *xcbor.Node) bool {
	if a.Kind != b.Kind {
		return false
	}
	switch a.Kind {
	case xcbor.Uint, xcbor.Nint, xcbor.Simple:
		return a.Arg == b.Arg
	case xcbor.Bytes, xcbor.Text:
		return bytes.Equal(a.Payload(), b.Payload())
	case xcbor.Tag:
		if a.Arg != b.Arg {
			return false
		}
	}
	if len(a.Items) != len(b.Items) {
		return false
	}
	for i := range a.Items {
		if !eqNode(a.Items[i], b.Items[i]) {
			return false
		}
	}
	return true
}

func cmpBatch(got []bfEvent, served []blk, raw bool) string {
	for i, b := range served {
		if i >= len(got) {
			return fmt.Sprintf("missing-callback: block callback %d of %d never fired", i, len(served))
		}
		e := got[i]
		if e.Done {
			return fmt.Sprintf("early-batchdone: BatchDone callback fired before block %d of %d", i, len(served))
		}
		if e.Type != b.Type || !bytes.Equal(e.Bytes, b.Bytes) {
			return fmt.Sprintf("wrong-block: callback %d delivered type %d %s.., served type %d %s..", i, e.Type, short(e.Bytes), b.Type, short(b.Bytes))
		}
		if !raw && !bytes.Equal(e.Hash, b.Hash) {
			return fmt.Sprintf("wrong-hash: callback %d block.Hash()=%x, reference %x", i, e.Hash, b.Hash)
		}
	}
	if len(got) <= len(served) {
		return "missing-batchdone: BatchDone callback never fired"
	}
	if !got[len(served)].Done {
		return "extra-block: a block callback fired where BatchDone was due"
	}
	if len(got) > len(served)+1 {
		return "extra-callback: callbacks after BatchDone"
	}
	return ""
}

func evDesc(evs []bfEvent) []string {
	var out []string
	for _, e := range evs {
		if e.Done {
			out = append(out, "BatchDone")
		} else {
			out = append(out, fmt.Sprintf("Block(type %d, %d bytes, %s)", e.Type, len(e.Bytes), short(e.Bytes)))
		}
	}
	return out
}

func opDesc(op c23Op) string {
	var sb strings.Builder
	req := "origin"
	if !op.ReqOrigin {
		req = fmt.Sprintf("%d:%.12s", op.ReqSlot, op.ReqHash)
	}
	q := ""
	if op.Queued {
		q = "queued "
	}
	fmt.Fprintf(&sb, "%s%s/%s req=%s", q, op.Kind, op.Shape, req)
	if op.Silent {
		sb.WriteString(" silent")
	}
	if op.CbErrAt > 0 {
		fmt.Fprintf(&sb, " cberr@%d", op.CbErrAt)
	}
	for _, r := range op.Serve {
		fmt.Fprintf(&sb, " %d~%d~%d", r.Fixture, r.Salt, r.Pad)
	}
	fmt.Fprintf(&sb, " f=%v", op.Flush)
	return sb.String()
}

func shapeWire(op c23Op) string {
	switch op.Shape {
	case shNoBlocks:
		return "NoBlocks"
	case shEmpty:
		return "StartBatch, BatchDone (no block)"
	}
	var hs []string
	for _, r := range op.Serve {
		hs = append(hs, "Block("+hex.EncodeToString(r.get().Hash)[:12]+"..)")
	}
	return "StartBatch, " + strings.Join(hs, ", ") + ", BatchDone"
}
