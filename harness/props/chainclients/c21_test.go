package chainclients

import (
	"bytes"
	"context"
	"encoding/binary"
	"errors"
	"fmt"
	"os"
	"runtime"
	"strings"
	"sync"
	"sync/atomic"
	"testing"
	"time"

	ouroboros "github.com/blinklabs-io/gouroboros"
	"github.com/blinklabs-io/gouroboros/ledger"
	"github.com/blinklabs-io/gouroboros/pipeline"
	"github.com/blinklabs-io/gouroboros/protocol"
	"github.com/blinklabs-io/gouroboros/protocol/chainsync"
	pcommon "github.com/blinklabs-io/gouroboros/protocol/common"
	"golang.org/x/crypto/blake2b"
	"pgregory.net/rapid"

	"verif/harness/internal/evi"
	"verif/harness/internal/fixtures"
	"verif/harness/internal/rawpeer"
	"verif/harness/internal/xcbor"
)

// ---- case description ----------------------------------------------------------

type csItem struct {
	Kind    string `json:"kind"` // "fwd" | "back"
	Await   bool   `json:"await,omitempty"`
	Blk     blkRef `json:"blk"`                     // fwd: the block (NtC) / the block whose header is sent (NtN)
	Origin  bool   `json:"origin,omitempty"`        // back: roll back to origin
	DelayUs int    `json:"delay_us,omitempty"`      // server pause before this reply
	Hold    bool   `json:"hold,omitempty"`          // do not flush after this reply: it shares a segment with the next
	TipOrig bool   `json:"tip_origin,omitempty"`    // tip point is the origin
	PtSpec  int    `json:"point_special,omitempty"` // back: 1..4 = special rollback point (slot 0 / 1 / 2^63 / 2^64-1 with an all-zero / all-0xff hash)
	TipSpec int    `json:"tip_special,omitempty"`   // 1..3 = special tip (slot and block number 0 / 2^63 / 2^64-1, all-zero / all-0xff hash)
}

var (
	zeroHash = make([]byte, 32)
	ffHash   = bytes.Repeat([]byte{0xff}, 32)
	// special rollback / intersect points; note that (0, 00..00) is not the origin
	specPoints = []struct {
		Slot uint64
		Hash []byte
	}{{0, zeroHash}, {1, ffHash}, {1 << 63, zeroHash}, {^uint64(0), ffHash}}
	specTips = []csTip{{0, zeroHash, 0}, {1 << 63, ffHash, 1 << 63}, {^uint64(0), ffHash, ^uint64(0)}}
)

type c21Case struct {
	NtN        bool     `json:"ntn"`
	Limit      int      `json:"pipeline_limit"`
	Raw        bool     `json:"raw_callback"`
	Seed       uint64   `json:"seed"` // tips, rollback points and salts are derived from it
	History    []csItem `json:"history"`
	CbDelayUs  []int    `json:"cb_delay_us"` // cycled over the callbacks
	StopAfter  int      `json:"stop_after"`  // Stop() is called when callback number StopAfter starts; -1: after the whole history
	Intersect  int      `json:"intersect_points"`
	Pipeline   bool     `json:"block_pipeline"`   // NtC only: blocks go through a pipeline.BlockPipeline, the apply function is the roll-forward callback
	PipeWorker int      `json:"pipeline_workers"` // decode workers
	PipeBuf    int      `json:"pipeline_buffer"`  // inter-stage channel size
	HoldFwd    int      `json:"hold_in_decode"`   // pipeline: history index of a RollForward (followed by a RollBackward) whose block is held inside the decode worker until that rollback's callback fires or 1.5 s pass; -1: none
	ClientPlan string   `json:"client_read_plan"`
	ServerPlan string   `json:"server_read_plan"`
	// history independence / failure steps (the same client object is used for all of it)
	Pre       []string `json:"pre_steps,omitempty"`          // before the Sync, on the same client: "tip" GetCurrentTip, "notfound" a Sync answered IntersectNotFound, "range" GetAvailableBlockRange
	IsectSpec bool     `json:"special_intersect,omitempty"`  // intersect points are special values
	Scribble  bool     `json:"scribble_received,omitempty"`  // raw / rollback callbacks overwrite the byte slices they were handed (after copying them)
	TipAt     int      `json:"get_current_tip_at,omitempty"` // another goroutine calls GetCurrentTip when this callback starts (0: never)
	CbErrAt   int      `json:"callback_error_at,omitempty"`  // this callback returns an error (0: never); no Stop point is generated then
	Restart   bool     `json:"restart_after_stop,omitempty"` // if Stop() ended the conversation with MsgDone: Start() again and Sync a second, short history
}

func effLimit(limit int) int {
	if limit == 0 {
		return 75 // documented default (chainsync.DefaultPipelineLimit); NewClient treats 0 as unset
	}
	return limit
}

// derived per-message data (deterministic in (seed, index))
func (c *c21Case) h(i int, what string) []byte {
	var b [16]byte
	binary.BigEndian.PutUint64(b[:], c.Seed)
	binary.BigEndian.PutUint64(b[8:], uint64(i))
	h := blake2b.Sum256(append(b[:], what...))
	return h[:]
}

type csTip struct {
	Slot    uint64
	Hash    []byte // nil: origin
	BlockNo uint64
}

func (c *c21Case) tip(i int) csTip {
	h := c.h(i, "tip")
	t := csTip{Slot: binary.BigEndian.Uint64(h[:8]) >> 20, BlockNo: uint64(i)*1000 + uint64(h[9]), Hash: c.h(i, "tiphash")}
	if i >= 0 && i < len(c.History) && c.History[i].TipOrig {
		t.Slot, t.Hash = 0, nil
	}
	if i >= 0 && i < len(c.History) && c.History[i].TipSpec > 0 {
		sp := specTips[c.History[i].TipSpec-1]
		// the block number stays unique per reply unless it is the special value itself
		t.Slot, t.Hash = sp.Slot, sp.Hash
		if c.History[i].TipSpec > 1 {
			t.BlockNo = sp.BlockNo - uint64(i)
		}
	}
	return t
}

func (c *c21Case) backPoint(i int) (uint64, []byte) {
	if c.History[i].Origin {
		return 0, nil
	}
	if sp := c.History[i].PtSpec; sp > 0 {
		return specPoints[sp-1].Slot, specPoints[sp-1].Hash
	}
	h := c.h(i, "back")
	return binary.BigEndian.Uint64(h[:8]) >> 24, c.h(i, "backhash")
}

// filler items served after the history when a stopping client still has
// requests outstanding (a server that is never at its tip)
func (c *c21Case) item(i int) csItem {
	if i < len(c.History) {
		return c.History[i]
	}
	return csItem{Kind: "fwd", Blk: blkRef{Fixture: 1}}
}

func (c *c21Case) blkAt(i int) blk {
	it := c.item(i)
	return variant(bases()[it.Blk.Fixture], it.Blk.Salt)
}

func genC21(rt *rapid.T) c21Case {
	c := c21Case{
		NtN:   rapid.Bool().Draw(rt, "ntn"),
		Limit: rapid.SampledFrom([]int{0, 1, 2, 10, 79, 80, 81, 82, 100}).Draw(rt, "limit"),
		Raw:   rapid.Bool().Draw(rt, "raw"),
		Seed:  rapid.Uint64().Draw(rt, "seed"),
	}
	var n int
	switch rapid.IntRange(0, 5).Draw(rt, "lenclass") {
	case 0:
		n = rapid.IntRange(1, 5).Draw(rt, "n")
	case 1, 2:
		n = rapid.IntRange(6, 40).Draw(rt, "n")
	case 3, 4:
		n = rapid.IntRange(41, 150).Draw(rt, "n")
	default:
		n = rapid.IntRange(151, 400).Draw(rt, "n")
	}
	pBack := rapid.SampledFrom([]int{0, 5, 20, 50}).Draw(rt, "pBack")
	pAwait := rapid.SampledFrom([]int{0, 5, 30, 100}).Draw(rt, "pAwait")
	pDelay := rapid.SampledFrom([]int{0, 0, 3, 20}).Draw(rt, "pDelay")
	pHold := rapid.SampledFrom([]int{0, 30, 90}).Draw(rt, "pHold")
	nb := nSmall()
	for i := 0; i < n; i++ {
		l := fmt.Sprintf("i%d", i)
		it := csItem{Kind: "fwd"}
		// the first reply of a real server after an intersection is a rollback;
		// both openings are generated
		if rapid.IntRange(0, 99).Draw(rt, l+"_k") < pBack {
			it.Kind = "back"
			it.Origin = rapid.IntRange(0, 7).Draw(rt, l+"_origin") == 0
			if !it.Origin && rapid.IntRange(0, 5).Draw(rt, l+"_ptspec") == 0 {
				it.PtSpec = rapid.IntRange(1, len(specPoints)).Draw(rt, l+"_ptspecv")
			}
		} else {
			it.Blk = blkRef{Fixture: rapid.IntRange(0, nb-1).Draw(rt, l+"_fx"), Salt: uint64(rapid.IntRange(0, 3).Draw(rt, l+"_salt"))}
			if it.Blk.Salt != 0 {
				it.Blk.Salt = uint64(i)*4 + it.Blk.Salt
			}
		}
		it.Await = rapid.IntRange(0, 99).Draw(rt, l+"_a") < pAwait
		if rapid.IntRange(0, 99).Draw(rt, l+"_d") < pDelay {
			it.DelayUs = rapid.SampledFrom([]int{1, 50, 300, 2000}).Draw(rt, l+"_dus")
		}
		it.Hold = rapid.IntRange(0, 99).Draw(rt, l+"_h") < pHold
		it.TipOrig = rapid.IntRange(0, 49).Draw(rt, l+"_to") == 0
		if !it.TipOrig && rapid.IntRange(0, 24).Draw(rt, l+"_tipspec") == 0 {
			it.TipSpec = rapid.IntRange(1, len(specTips)).Draw(rt, l+"_tipspecv")
		}
		c.History = append(c.History, it)
	}
	c.CbDelayUs = rapid.SliceOfN(rapid.SampledFrom([]int{0, 0, 0, 0, 1, 30, 300, 1500}), 1, 5).Draw(rt, "cbdelays")
	if rapid.IntRange(0, 2).Draw(rt, "stopmode") == 0 {
		c.StopAfter = -1
	} else {
		c.StopAfter = rapid.IntRange(1, n).Draw(rt, "stopafter")
	}
	c.Intersect = rapid.IntRange(0, 3).Draw(rt, "intersect")
	if !c.NtN && rapid.IntRange(0, 2).Draw(rt, "pipeline") == 0 {
		c.Pipeline = true
		c.PipeWorker = rapid.IntRange(1, 4).Draw(rt, "pipeworkers")
		c.PipeBuf = rapid.SampledFrom([]int{1, 2, 16, 1000}).Draw(rt, "pipebuf")
	}
	npre := rapid.SampledFrom([]int{0, 0, 0, 1, 1, 2}).Draw(rt, "npre")
	for i := 0; i < npre; i++ {
		c.Pre = append(c.Pre, rapid.SampledFrom([]string{"tip", "notfound", "range"}).Draw(rt, fmt.Sprintf("pre%d", i)))
	}
	c.IsectSpec = rapid.IntRange(0, 3).Draw(rt, "isectspec") == 0
	c.Scribble = rapid.IntRange(0, 2).Draw(rt, "scribble") == 0
	if !c.Pipeline {
		if rapid.IntRange(0, 3).Draw(rt, "tipat") == 0 {
			c.TipAt = rapid.IntRange(1, n).Draw(rt, "tipatv")
		}
		if rapid.IntRange(0, 7).Draw(rt, "cberr") == 0 {
			c.CbErrAt = rapid.IntRange(1, n).Draw(rt, "cberrv")
			c.StopAfter = -1
		}
		c.Restart = rapid.Bool().Draw(rt, "restart")
	}
	c.HoldFwd = -1
	if c.Pipeline && rapid.IntRange(0, 2).Draw(rt, "hold") == 0 {
		var cand []int
		for i := 0; i+1 < len(c.History); i++ {
			if c.History[i].Kind == "fwd" && c.History[i+1].Kind == "back" {
				cand = append(cand, i)
			}
		}
		if len(cand) > 0 {
			c.HoldFwd = cand[rapid.IntRange(0, len(cand)-1).Draw(rt, "holdidx")]
		}
	}
	return c
}

// ---- raw chain-sync server ---------------------------------------------------------

func (t csTip) node() *xcbor.Node { return tipNode(t.Slot, t.Hash, t.BlockNo) }

func rollForwardBytes(ntn bool, b blk, tip csTip) []byte {
	if !ntn {
		inner := append([]byte{0x82}, xcbor.U(uint64(b.Type)).Encode()...)
		inner = append(inner, b.Bytes...)
		return xcbor.A(xcbor.U(2), xcbor.Tg(24, xcbor.B(inner)), tip.node()).Encode()
	}
	var wrapped *xcbor.Node
	switch b.Type {
	case fixtures.TypeByronEbb, fixtures.TypeByronMain:
		wrapped = xcbor.A(xcbor.U(0), xcbor.A(
			xcbor.A(xcbor.U(uint64(b.Type)), xcbor.U(uint64(len(b.Bytes)))),
			xcbor.Tg(24, xcbor.B(b.Header))))
	default:
		// NtN header era ids: shelley 1 .. dijkstra 7 = block type - 1
		wrapped = xcbor.A(xcbor.U(uint64(b.Type-1)), xcbor.Tg(24, xcbor.B(b.Header)))
	}
	return xcbor.A(xcbor.U(2), wrapped, tip.node()).Encode()
}

// csServer is the scripted server side of one conversation.
type csServer struct {
	p       *rawpeer.Peer
	proto   uint16
	c       *c21Case
	bound   int
	reqs    int // RequestNext messages seen
	sent    int // RollForward/RollBackward replies composed
	flushed int // ... of which written to the connection
	maxOut  int
	done    bool // MsgDone seen
	closed  bool // connection ended
	viol    string
	unexp   string
	pend    []byte
	queue   []byte  // client requests not yet answered, in arrival order: 'R' RequestNext, 'F' FindIntersect (a concurrent GetCurrentTip)
	nF      int     // FindIntersect messages seen / answered
	tips    []csTip // tips sent in IntersectNotFound replies
}

func (s *csServer) hasF() bool {
	for _, k := range s.queue {
		if k == 'F' {
			return true
		}
	}
	return false
}

// answerF answers FindIntersect requests that are at the head of the queue.
func (s *csServer) answerF() {
	for len(s.queue) > 0 && s.queue[0] == 'F' {
		s.queue = s.queue[1:]
		t := s.c.tip(-100 - s.nF)
		s.nF++
		s.tips = append(s.tips, t)
		s.pend = append(s.pend, xcbor.A(xcbor.U(6), t.node()).Encode()...)
	}
}

// pump consumes every client message that is available (waiting up to d for the
// first one when wait is set) and checks the pipelining bound.
func (s *csServer) pump(wait bool, d time.Duration) {
	for {
		to := time.Duration(0)
		if wait {
			to = d
		}
		m, err := s.p.NextMsg(s.proto, false, to)
		if err != nil {
			if !errors.Is(err, rawpeer.ErrTimeout) {
				s.closed = true
			}
			return
		}
		wait = false
		n, perr := xcbor.ParseExact(m)
		switch {
		case perr == nil && n.Kind == xcbor.Array && len(n.Items) == 1 && n.Items[0].Kind == xcbor.Uint && n.Items[0].Arg == 0:
			s.reqs++
			s.queue = append(s.queue, 'R')
			out := s.reqs - s.flushed
			if out > s.maxOut {
				s.maxOut = out
			}
			if out > s.bound && s.viol == "" {
				s.viol = fmt.Sprintf("%d RequestNext on the wire with only %d replies sent: %d outstanding > limit %d", s.reqs, s.flushed, out, s.bound)
			}
		case perr == nil && n.Kind == xcbor.Array && len(n.Items) == 1 && n.Items[0].Kind == xcbor.Uint && n.Items[0].Arg == 7:
			s.done = true
			return
		case perr == nil && n.Kind == xcbor.Array && len(n.Items) == 2 && n.Items[0].Kind == xcbor.Uint && n.Items[0].Arg == 4 && s.c.TipAt > 0:
			s.queue = append(s.queue, 'F')
		default:
			if s.unexp == "" {
				s.unexp = fmt.Sprintf("unexpected client message %x after %d requests", m, s.reqs)
			}
		}
	}
}

func (s *csServer) flush() error {
	if len(s.pend) == 0 {
		return nil
	}
	err := s.p.SendMsg(s.proto, true, s.pend)
	s.pend = nil
	s.flushed = s.sent
	return err
}

// reply answers one outstanding request with item i.
func (s *csServer) reply(i int) error {
	it := s.c.item(i)
	s.answerF()
	if len(s.queue) > 0 && s.queue[0] == 'R' {
		s.queue = s.queue[1:]
	}
	if it.DelayUs > 0 {
		if err := s.flush(); err != nil {
			return err
		}
		if it.DelayUs == 1 {
			runtime.Gosched()
		} else {
			time.Sleep(time.Duration(it.DelayUs) * time.Microsecond)
		}
	}
	if it.Await {
		s.pend = append(s.pend, xcbor.A(xcbor.U(1)).Encode()...)
	}
	tip := s.c.tip(i)
	if it.Kind == "fwd" {
		s.pend = append(s.pend, rollForwardBytes(s.c.NtN, s.c.blkAt(i), tip)...)
	} else {
		slot, hash := s.c.backPoint(i)
		s.pend = append(s.pend, xcbor.A(xcbor.U(3), pointNode(slot, hash), tip.node()).Encode()...)
	}
	s.sent++
	// a held reply may only share a segment with a successor that is already
	// requested; otherwise it would be withheld while the client waits for it
	if !it.Hold || s.reqs <= s.sent || len(s.pend) > 40000 {
		return s.flush()
	}
	return nil
}

// ---- callback log ------------------------------------------------------------------

type csEvent struct {
	Kind  string // "fwd" | "back"
	Type  uint
	Bytes []byte // raw callback: block/header bytes; decoded: Cbor()
	Hash  []byte // decoded callback: Hash()
	Slot  uint64 // back: point
	PHash []byte
	Tip   csTip
	// the very values the library handed over (not copied), re-read at the end
	keep  []byte // raw roll-forward payload
	keepP []byte // rollback point hash
	keepT []byte // tip hash
	obj   any    // decoded block / header
}

func cpBytes(b []byte) []byte {
	if b == nil {
		return nil
	}
	return append([]byte{}, b...)
}

func scribble(b []byte) {
	for i := range b {
		b[i] = 0xEE
	}
}

var errHarnessSyncCallback = errors.New("harness: the callback refuses this message")

type csLog struct {
	mu        sync.Mutex
	cond      *sync.Cond
	ev        []csEvent
	delays    []int
	stopAt    int
	stopSig   chan struct{}
	stopOnce  sync.Once
	stopRet   bool
	entered   int
	afterStop int
	tipAt     int
	tipSig    chan struct{}
	tipOnce   sync.Once
}

func (l *csLog) enter() int { return l.enterKind(false) }

// enterKind: apply marks a call of the pipeline's apply function, which is
// asynchronous to the client by design and therefore may run after Stop().
func (l *csLog) enterKind(apply bool) int {
	l.mu.Lock()
	// own counter: with a block pipeline the apply function and the rollback
	// callback can run concurrently, len(l.ev) would give both the same number
	l.entered++
	n := l.entered
	d := l.delays[(n-1)%len(l.delays)]
	if l.stopRet && !apply {
		l.afterStop++
	}
	l.mu.Unlock()
	if l.stopAt > 0 && n == l.stopAt {
		l.stopOnce.Do(func() { close(l.stopSig) })
	}
	switch {
	case d == 1:
		runtime.Gosched()
	case d > 1:
		time.Sleep(time.Duration(d) * time.Microsecond)
	}
	if l.tipAt > 0 && n == l.tipAt {
		l.tipOnce.Do(func() { close(l.tipSig) })
	}
	return n
}

func (l *csLog) add(e csEvent) {
	l.mu.Lock()
	l.ev = append(l.ev, e)
	l.cond.Broadcast()
	l.mu.Unlock()
}

func (l *csLog) afterStopCount() int {
	l.mu.Lock()
	defer l.mu.Unlock()
	return l.afterStop
}

func (l *csLog) snapshot() []csEvent {
	l.mu.Lock()
	defer l.mu.Unlock()
	return append([]csEvent(nil), l.ev...)
}

func (l *csLog) waitLen(n int, d time.Duration, abort func() bool) int {
	deadline := time.Now().Add(d)
	for {
		l.mu.Lock()
		k := len(l.ev)
		l.mu.Unlock()
		if k >= n || time.Now().After(deadline) || (abort != nil && abort()) {
			return k
		}
		time.Sleep(200 * time.Microsecond)
	}
}

func libTip(t chainsync.Tip) csTip {
	return csTip{Slot: t.Point.Slot, Hash: cpBytes(t.Point.Hash), BlockNo: t.BlockNumber}
}

func tipEq(a, b csTip) bool {
	return a.Slot == b.Slot && a.BlockNo == b.BlockNo && bytes.Equal(a.Hash, b.Hash)
}

func (t csTip) String() string {
	if t.Hash == nil {
		return fmt.Sprintf("tip(origin,#%d)", t.BlockNo)
	}
	return fmt.Sprintf("tip(%d,%s,#%d)", t.Slot, short(t.Hash), t.BlockNo)
}

// ---- the check ----------------------------------------------------------------------

const (
	c21Bound = 25 * time.Second // bounded liveness for every wait on the library
	// After Stop() has returned the client's protocol instance is shut down; a
	// MsgDone it managed to queue reaches the wire within microseconds. Waiting
	// this long for MsgDone / the end of the connection is far beyond 20x that.
	c21PostStopBound = 3 * time.Second
	c21ShortGrace    = 50 * time.Millisecond // only for further hits of an already listed known finding
	// Stop() normally takes ~250 ms (its own send-queue wait) and at most ~5.3 s
	// (its internal busy-lock timeout); both are timers, not work.
	c21StopBound = 15 * time.Second
)

// handled counts, per protocol instance, the RollForward/RollBackward messages
// whose handler has been entered (verif tracer hook).
type csTrace struct {
	p       *protocol.Protocol
	handled atomic.Int64
}

var c21Trace atomic.Pointer[csTrace]

// holdState: fault schedule for the pipeline variant - one block is kept inside
// the decode worker (pipeline verif stage hook) until the next RollBackward
// callback fires or the bound passes.
type holdState struct {
	seq     uint64 // pipeline sequence number of the held block
	release chan struct{}
	once    sync.Once
	held    atomic.Bool
}

func (h *holdState) free() { h.once.Do(func() { close(h.release) }) }

var c21Hold atomic.Pointer[holdState]

const c21HoldBound = 1500 * time.Millisecond

func installC21Tracer() {
	pipeline.SetVerifStageHook(func(stage string, item *pipeline.BlockItem) {
		h := c21Hold.Load()
		if h == nil || stage != "decode" || item.SequenceNumber() != h.seq || h.held.Swap(true) {
			return
		}
		select {
		case <-h.release:
		case <-time.After(c21HoldBound):
		}
	})
	protocol.SetVerifTracer(func(ev protocol.VerifEvent) {
		tr := c21Trace.Load()
		if tr == nil || ev.P != tr.p || ev.Kind != "handler" {
			return
		}
		if ev.MsgType == 2 || ev.MsgType == 3 {
			tr.handled.Add(1)
		}
	})
}

func TestC21(t *testing.T) {
	limitShrinkTime()
	installC21Tracer()
	defer protocol.SetVerifTracer(nil)
	defer pipeline.SetVerifStageHook(nil)
	rec := evi.New(t, "C21", evi.Exploration,
		"one Sync per case on a real NtC or NtN connection against a scripted raw chain-sync server: history of 1..400 replies, each RollForward (a real block / its header, fixtures of every era and salted variants) or RollBackward (random point or origin), optionally preceded by AwaitReply, each with its own tip; pipeline limit from {0 (=75),1,2,10,79,80,81,82,100} (around the 80-slot send queue); a sweep that calls Stop() after / in the middle of a pipeline refill with a harness-controlled server (c21_refill_test.go); raw or decoded callback; NtC optionally through a pipeline.BlockPipeline (1..4 decode workers, buffer 1..1000; optionally one block held inside the decode worker until the next rollback callback fires); generated callback delays, server pauses, reply grouping into segments, read fragmentation; Stop() after the whole history or when a generated callback starts (then the server keeps answering outstanding requests). The same client object first optionally runs GetCurrentTip / a Sync answered IntersectNotFound / GetAvailableBlockRange, may be asked for the current tip by a second goroutine mid-sync, may have a callback return an error, and after a Stop() that ended with MsgDone is started again for a second short history; rollback and intersect points and tips include slot/block number 0, 1, 2^63, 2^64-1 with all-zero/all-0xff hashes; every value handed to a callback is retained (or overwritten by the callback) and re-checked at the end. 10 fixed histories of these classes run first at every seed. Non-trivial: >= 3 replies. Distinct by (mode, limit, callback kind, pipeline parameters, history shape, stop point, pre-steps).")
	defer rec.Finish()
	rec.Assume(
		"pipeline limit 0 is 'unset' and means the documented default 75 (chainsync.NewClient); limits above 100 are rejected by the library's configuration validation and not generated",
		"Stop() is never called while a refill has left the send queue exactly full (limit - first segment == 80): the unchanged tree deadlocks there (listed known finding for limit 100); generated cases with 82 <= limit < 100 end by closing the connection",
		"the wire-level count (#RequestNext received by the server - #RollForward/RollBackward sent by the server) bounds the client's own count of unanswered requests from below, so exceeding the limit on the wire implies exceeding it in the client",
		"Stop() is called from a goroutine other than the callback (the callback API offers ErrStopSyncProcess for the other case); after Stop the server keeps answering every request it received",
		"bounded liveness: no progress for 25 s = stall; Stop() not returning for 15 s (its own timers are 250 ms and 5 s) = hang; 3 s after Stop() returned with nothing owed by the server, neither MsgDone nor the end of the connection = conversation left open",
		"with a block pipeline the apply function takes the place of the roll-forward callback and may legitimately run after Stop() returned",
	)
	for _, fc := range fixedC21Cases() {
		fc := fc
		ok := runFixed(func() {
			rec.Class("fixed_sweep")
			runC21(fixedTB{t}, rec, &fc.cs, nil, nil)
		})
		if !ok {
			fmt.Printf("fixed C21 case %q failed\n", fc.name)
			return
		}
	}

	if !refillSweep(t, rec) {
		return
	}

	rec.Check(func(rt *rapid.T) {
		cs := genC21(rt)
		pc, ps := genPlan(rt, "client"), genPlan(rt, "server")
		cs.ClientPlan, cs.ServerPlan = planDesc(pc), planDesc(ps)
		t0 := time.Now()
		runC21(rt, rec, &cs, pc, ps)
		if os.Getenv("C21_TIMING") != "" {
			fmt.Printf("TIMING %.3f n=%d ntn=%v limit=%d raw=%v stop=%d cb=%v pc=%s ps=%s\n", time.Since(t0).Seconds(), len(cs.History), cs.NtN, cs.Limit, cs.Raw, cs.StopAfter, cs.CbDelayUs, cs.ClientPlan, cs.ServerPlan)
		}
	})
}

// ---- deterministic sweep ------------------------------------------------------------

type namedC21 struct {
	name string
	cs   c21Case
}

func fixedC21Cases() []namedC21 {
	f := func(fx int) csItem { return csItem{Kind: "fwd", Blk: blkRef{Fixture: fx}} }
	b := func(spec int) csItem { return csItem{Kind: "back", PtSpec: spec} }
	aw := func(it csItem) csItem { it.Await = true; return it }
	tipSpec := func(it csItem, k int) csItem { it.TipSpec = k; return it }
	orig := csItem{Kind: "back", Origin: true}
	mk := func(name string, c c21Case) namedC21 {
		if c.CbDelayUs == nil {
			c.CbDelayUs = []int{0}
		}
		if c.StopAfter == 0 {
			c.StopAfter = -1
		}
		c.HoldFwd = -1
		c.Seed = uint64(len(name)) * 7919
		return namedC21{name, c}
	}
	return []namedC21{
		// Stop() while a roll-backward / roll-forward callback is running (seeded C21-a)
		mk("stop-during-rollback-callback", c21Case{Limit: 2, Raw: true, StopAfter: 2, CbDelayUs: []int{3000}, History: []csItem{f(2), b(0), f(3), b(0), f(4)}}),
		mk("stop-during-rollforward-callback", c21Case{NtN: true, Limit: 5, StopAfter: 3, CbDelayUs: []int{3000}, History: []csItem{b(0), f(3), f(4), b(0), f(5), f(6)}}),
		// special rollback points / tips, AwaitReply before a RollBackward, rollback right after a roll-forward
		mk("special-points:ntc", c21Case{Limit: 2, Raw: true, History: []csItem{aw(f(2)), aw(b(1)), f(3), orig, tipSpec(aw(b(4)), 3), tipSpec(f(0), 1), b(2), tipSpec(b(3), 2), f(9)}}),
		mk("special-points:ntn", c21Case{NtN: true, Limit: 5, Intersect: 2, IsectSpec: true, History: []csItem{f(4), aw(b(1)), f(5), aw(b(2)), b(3), tipSpec(f(6), 2), b(4), tipSpec(orig, 3), f(7)}}),
		// other operations on the same client before the Sync
		mk("pre-steps:ntc", c21Case{Limit: 1, Pre: []string{"tip", "notfound", "range"}, Intersect: 1, History: []csItem{f(2), b(0), f(3)}}),
		mk("pre-steps:ntn", c21Case{NtN: true, Limit: 2, Raw: true, Pre: []string{"range", "notfound", "range"}, IsectSpec: true, Intersect: 3, History: []csItem{b(1), f(8), f(1), aw(b(0))}}),
		// callbacks that overwrite what they were handed; values retained by callbacks
		mk("scribble:ntn", c21Case{NtN: true, Limit: 5, Raw: true, Scribble: true, History: []csItem{f(2), f(3), b(1), f(4), b(0), f(5), f(2)}}),
		mk("scribble:ntc", c21Case{Limit: 75, Raw: true, Scribble: true, History: []csItem{f(9), b(0), f(9), b(2), f(0)}}),
		mk("retain:ntn-decoded", c21Case{NtN: true, Limit: 100, History: []csItem{f(2), b(0), f(3), b(0), f(4), f(5), b(0), f(6), f(7), f(8), f(9)}}),
		// failure steps and a concurrent caller
		mk("callback-error", c21Case{Limit: 2, Raw: true, CbErrAt: 2, History: []csItem{f(2), b(0), f(3), f(4)}}),
		mk("concurrent-tip", c21Case{NtN: true, Limit: 5, TipAt: 2, History: []csItem{f(2), f(3), b(0), f(4), f(5), f(6)}}),
		mk("restart", c21Case{Limit: 1, Raw: true, Restart: true, History: []csItem{f(2), b(0)}}),
	}
}

func runC21(rt tb, rec *evi.Recorder, cs *c21Case, pc, ps rawpeer.Plan) {
	mode := "ntc"
	if cs.NtN {
		mode = "ntn"
	}
	if cs.Pipeline {
		mode = "ntc-pipeline"
	}
	lim := fmt.Sprintf("limit%d", cs.Limit)
	// A listed known finding makes Stop() deadlock for this configuration; each
	// confirmation costs the full bound and leaks the wedged goroutines, so
	// after a few confirmations per process such cases end by closing the
	// connection instead (delivery and the pipelining bound are still checked).
	skipStop := stopHangExhausted(rec, stopHangKey(mode, lim))
	if cs.Limit >= 82 && cs.Limit < 100 {
		// On the unchanged tree Stop() deadlocks whenever a refill has left the
		// send queue exactly full (limit - first segment == 80 with a first
		// segment of >= 2 requests; limit 100 is the listed known finding). The
		// generated histories cannot control that, so for these limits Stop() is
		// only exercised by the refill sweep, which excludes that state.
		skipStop = true
	}
	if skipStop {
		cs.StopAfter = -1
	}
	log := &csLog{delays: cs.CbDelayUs, stopAt: cs.StopAfter, stopSig: make(chan struct{}), tipAt: cs.TipAt, tipSig: make(chan struct{})}
	log.cond = sync.NewCond(&log.mu)
	// finish: what a direct callback does with the values it was handed
	finish := func(n int, e csEvent, data []byte, p pcommon.Point, tip chainsync.Tip) error {
		if cs.Scribble {
			scribble(data)
			scribble(p.Hash)
			scribble(tip.Point.Hash)
		} else {
			e.keep, e.keepP, e.keepT = data, p.Hash, tip.Point.Hash
		}
		log.add(e)
		if cs.CbErrAt > 0 && n == cs.CbErrAt {
			return errHarnessSyncCallback
		}
		return nil
	}
	opts := []chainsync.ChainSyncOptionFunc{
		chainsync.WithPipelineLimit(cs.Limit),
		chainsync.WithIntersectTimeout(120 * time.Second),
		chainsync.WithRollBackwardFunc(func(_ chainsync.CallbackContext, p pcommon.Point, tip chainsync.Tip) error {
			if h := c21Hold.Load(); h != nil && h.held.Load() {
				h.free()
			}
			n := log.enter()
			return finish(n, csEvent{Kind: "back", Slot: p.Slot, PHash: cpBytes(p.Hash), Tip: libTip(tip)}, nil, p, tip)
		}),
	}
	if cs.Raw {
		opts = append(opts, chainsync.WithRollForwardRawFunc(func(_ chainsync.CallbackContext, typ uint, data []byte, tip chainsync.Tip) error {
			n := log.enter()
			return finish(n, csEvent{Kind: "fwd", Type: typ, Bytes: append([]byte(nil), data...), Tip: libTip(tip)}, data, pcommon.Point{}, tip)
		}))
	} else {
		opts = append(opts, chainsync.WithRollForwardFunc(func(_ chainsync.CallbackContext, typ uint, data any, tip chainsync.Tip) error {
			n := log.enter()
			e := csEvent{Kind: "fwd", Type: typ, Tip: libTip(tip), obj: data}
			switch v := data.(type) {
			case ledger.Block:
				e.Bytes, e.Hash = append([]byte(nil), v.Cbor()...), v.Hash().Bytes()
			case ledger.BlockHeader:
				e.Bytes, e.Hash = append([]byte(nil), v.Cbor()...), v.Hash().Bytes()
			}
			return finish(n, e, nil, pcommon.Point{}, tip)
		}))
	}
	if cs.Pipeline && cs.HoldFwd >= 0 {
		h := &holdState{release: make(chan struct{})}
		for i := 0; i < cs.HoldFwd; i++ {
			if cs.History[i].Kind == "fwd" {
				h.seq++
			}
		}
		c21Hold.Store(h)
		defer func() { h.free(); c21Hold.Store(nil) }()
		rec.Class("pipeline_hold_block_in_decode")
	}
	var pl *pipeline.BlockPipeline
	var plErrs []string
	var plMu sync.Mutex
	stopPipeline := func() {}
	if cs.Pipeline {
		pl = pipeline.NewBlockPipeline(
			pipeline.WithDecodeWorkers(cs.PipeWorker),
			pipeline.WithPrefetchBufferSize(cs.PipeBuf),
			pipeline.WithApplyFunc(func(it *pipeline.BlockItem) error {
				log.enterKind(true)
				e := csEvent{Kind: "fwd", Type: it.BlockType(), Bytes: append([]byte(nil), it.RawCbor()...), Tip: libTip(it.Tip())}
				if b := it.Block(); b != nil {
					e.Hash = b.Hash().Bytes()
				}
				log.add(e)
				return nil
			}),
		)
		if err := pl.Start(context.Background()); err != nil {
			rt.Fatalf("harness: pipeline start: %v", err)
		}
		go func() {
			for range pl.Results() {
			}
		}()
		go func() {
			for e := range pl.Errors() {
				plMu.Lock()
				plErrs = append(plErrs, e.Error())
				plMu.Unlock()
			}
		}()
		var once sync.Once
		stopPipeline = func() {
			once.Do(func() {
				fin := make(chan struct{})
				go func() { _ = pl.Stop(); close(fin) }()
				select {
				case <-fin:
				case <-time.After(10 * time.Second):
				}
			})
		}
		defer stopPipeline()
		opts = append(opts, chainsync.WithPipeline(pl))
	}
	cfg := chainsync.NewConfig(opts...)
	dialT0 := time.Now()
	s, err := dial(cs.NtN, pc, ps, ouroboros.WithChainSyncConfig(cfg))
	if err != nil {
		rt.Fatalf("harness: dial: %v", err)
	}
	// load factor 1..6: the connection set-up takes 1-3 ms on an idle machine;
	// the liveness bounds grow with it so that slowness is never read as a hang
	lf := max(1, min(time.Since(dialT0)/(10*time.Millisecond), 6))
	stallBound, stopBound := c21Bound*lf, c21StopBound*min(lf, 2)
	closed := false
	defer func() {
		if !closed {
			s.close()
		}
	}()
	client := s.oc.ChainSync().Client
	trace := &csTrace{p: client.ProtocolInstance()}
	c21Trace.Store(trace)
	defer c21Trace.Store(nil)
	proto := protoChainSyncNtC
	if cs.NtN {
		proto = protoChainSyncNtN
	}
	fail := func(key, what string, extra map[string]any) bool {
		obj := map[string]any{"case": caseSummary(cs), "conn_errors": s.connErrors()}
		if cs.Pipeline {
			plMu.Lock()
			obj["pipeline_errors"] = append([]string(nil), plErrs...)
			plMu.Unlock()
		}
		for k, v := range extra {
			obj[k] = v
		}
		return rec.Fail(rt, key, what, obj)
	}

	// ---- intersect points ----
	mkPoints := func(base, k int) ([]pcommon.Point, []*xcbor.Node) {
		var pts []pcommon.Point
		var nodes []*xcbor.Node
		for i := 0; i < k; i++ {
			h := cs.h(base-i, "isect")
			slot := binary.BigEndian.Uint64(h[:8]) >> 24
			if cs.IsectSpec {
				sp := specPoints[(i+int(cs.Seed%4))%len(specPoints)]
				slot, h = sp.Slot, sp.Hash
			}
			pts = append(pts, pcommon.NewPoint(slot, cpBytes(h)))
			nodes = append(nodes, pointNode(slot, h))
		}
		if len(nodes) == 0 {
			nodes = []*xcbor.Node{xcbor.A()} // the client substitutes the origin
		}
		return pts, nodes
	}

	// ---- steps before the Sync, on the same client object ----
	// They are outside the statement (their own results are not judged); what is
	// judged is that the Sync that follows delivers exactly its own history.
	bail := func(what string) { rec.Class("pre_step_" + what) }
	expect := func(want []byte) bool {
		m, err := s.peer.NextMsg(proto, false, stallBound)
		return err == nil && sameValue(m, want)
	}
	for k, kind := range cs.Pre {
		ppts, pnodes := mkPoints(-200-10*k, 1+k)
		rec.Class("pre:" + kind)
		switch kind {
		case "tip":
			ch := make(chan error, 1)
			go func() { _, err := client.GetCurrentTip(); ch <- err }()
			if !expect(xcbor.A(xcbor.U(4), xcbor.A()).Encode()) {
				bail("unexpected_message")
				return
			}
			_ = s.peer.SendMsg(proto, true, xcbor.A(xcbor.U(6), cs.tip(-300-k).node()).Encode())
			select {
			case <-ch:
			case <-time.After(stallBound):
				bail("no_return")
				return
			}
		case "notfound":
			ch := make(chan error, 1)
			go func() { ch <- client.Sync(ppts) }()
			if !expect(xcbor.A(xcbor.U(4), xcbor.A(pnodes...)).Encode()) {
				bail("unexpected_message")
				return
			}
			_ = s.peer.SendMsg(proto, true, xcbor.A(xcbor.U(6), cs.tip(-300-k).node()).Encode())
			select {
			case err := <-ch:
				if err == nil {
					bail("notfound_returned_nil")
					return
				}
			case <-time.After(stallBound):
				bail("no_return")
				return
			}
		case "range":
			ch := make(chan error, 1)
			go func() { _, _, err := client.GetAvailableBlockRange(ppts); ch <- err }()
			if !expect(xcbor.A(xcbor.U(4), xcbor.A(pnodes...)).Encode()) {
				bail("unexpected_message")
				return
			}
			far := csTip{Slot: ^uint64(0), Hash: cs.h(-300-k, "far"), BlockNo: 9}
			_ = s.peer.SendMsg(proto, true, xcbor.A(xcbor.U(5), pnodes[0], far.node()).Encode())
			if ppts[0].Slot < far.Slot {
				// the client asks for the rollback and the first block after the intersection
				if !expect(xcbor.A(xcbor.U(0)).Encode()) {
					bail("unexpected_message")
					return
				}
				_ = s.peer.SendMsg(proto, true, xcbor.A(xcbor.U(3), pnodes[0], far.node()).Encode())
				if !expect(xcbor.A(xcbor.U(0)).Encode()) {
					bail("unexpected_message")
					return
				}
				_ = s.peer.SendMsg(proto, true, rollForwardBytes(cs.NtN, bases()[2], far))
			}
			select {
			case <-ch:
			case <-time.After(stallBound):
				bail("no_return")
				return
			}
		}
	}
	if n := log.waitLen(0, 0, nil); n != 0 {
		fail("callback-from-earlier-operation:"+mode, fmt.Sprintf("%d callback(s) fired during %v, before Sync was called", n, cs.Pre), nil)
		return
	}
	handledBase := trace.handled.Load()

	// ---- intersect ----
	pts, ptNodes := mkPoints(-1, cs.Intersect)
	syncErr := make(chan error, 1)
	go func() { syncErr <- client.Sync(pts) }()
	m, err := s.peer.NextMsg(proto, false, stallBound)
	if err != nil {
		fail("sync:no-find-intersect", fmt.Sprintf("no FindIntersect on the wire: %v", err), map[string]any{"goroutines": goroutineDump(fmt.Sprintf("%p", client), "chainsync")})
		return
	}
	if want := xcbor.A(xcbor.U(4), xcbor.A(ptNodes...)).Encode(); !sameValue(m, want) {
		if !fail("sync:find-intersect-mismatch", fmt.Sprintf("FindIntersect on the wire %x, want the data of %x", m, want), nil) {
			return
		}
	}
	isectTip := cs.tip(-1)
	if err := s.peer.SendMsg(proto, true, xcbor.A(xcbor.U(5), ptNodes[0], isectTip.node()).Encode()); err != nil {
		rt.Fatalf("harness: write: %v", err)
	}
	select {
	case err := <-syncErr:
		if err != nil {
			fail("sync:error", fmt.Sprintf("Sync failed after IntersectFound: %v", err), nil)
			return
		}
	case <-time.After(stallBound):
		fail("sync:hang", "Sync did not return after IntersectFound", map[string]any{"goroutines": goroutineDump(fmt.Sprintf("%p", client), "chainsync")})
		return
	}

	// ---- stop goroutine ----
	type stopRes struct {
		err   error
		atLen int
	}
	stopCh := make(chan stopRes, 1)
	stopNow := make(chan struct{})
	go func() {
		select {
		case <-log.stopSig:
		case <-stopNow:
		}
		err := client.Stop()
		log.mu.Lock()
		log.stopRet = true
		n := len(log.ev)
		log.mu.Unlock()
		stopCh <- stopRes{err, n}
	}()

	// ---- a concurrent caller on the same client ----
	tipRet := make(chan error, 1)
	if cs.TipAt > 0 {
		rec.Class("concurrent_get_current_tip")
		go func() {
			<-log.tipSig
			_, err := client.GetCurrentTip()
			tipRet <- err
		}()
	}

	// ---- serve the history ----
	srv := &csServer{p: s.peer, proto: proto, c: cs, bound: max(1, effLimit(cs.Limit))}
	n := len(cs.History)
	fillerCap := n + 3*srv.bound + 20
	// compareLog: the callback log is the server's history, in order, one
	// callback per reply, each with the tip its reply carried. Returns false
	// when an unlisted violation was reported.
	logLimit := -1 // >= 0: only the first logLimit callbacks belong to the first conversation
	compareLog := func(stopped bool) bool {
		evs := log.snapshot()
		if logLimit >= 0 && len(evs) > logLimit {
			evs = evs[:logLimit]
		}
		if len(evs) > srv.sent {
			fail("callback-extra:"+mode, fmt.Sprintf("%d callbacks for %d replies", len(evs), srv.sent), nil)
			return false
		}
		if stopped && cs.StopAfter > 0 && len(evs) < min(cs.StopAfter, srv.sent) {
			fail("callback-missing:"+mode, fmt.Sprintf("%d callbacks although Stop was triggered by callback %d", len(evs), cs.StopAfter), nil)
			return false
		}
		if cs.CbErrAt > 0 && len(evs) >= cs.CbErrAt {
			// the refused message ends the delivery: what was delivered must be right
		} else if cs.StopAfter < 0 && len(evs) < n {
			fail("callback-missing:"+mode, fmt.Sprintf("%d callbacks for a history of %d replies", len(evs), n), nil)
			return false
		}
		for k, e := range evs {
			it := cs.item(k)
			if msg := cmpEvent(cs, k, it, e); msg != "" {
				if cs.Pipeline && e.Kind == "back" && it.Kind == "fwd" {
					// is it the callback of a later RollBackward that overtook the
					// roll-forwards sent before it?
					j := k
					for j < n && cs.History[j].Kind == "fwd" {
						j++
					}
					if j < n && cmpEvent(cs, j, cs.History[j], e) == "" {
						return fail("pipeline:rollback-overtakes-rollforward",
							fmt.Sprintf("with a block pipeline the RollBackward callback of reply %d fired before the apply call of %d RollForward(s) the server had sent before it (replies %d..%d); callbacks: %s", j, j-k, k, j-1, evKinds(evs, k, j+2)),
							map[string]any{"index": k})
					}
				}
				kind := strings.SplitN(msg, ":", 2)[0]
				if !fail(fmt.Sprintf("callback-%s:%s", kind, mode), fmt.Sprintf("callback %d of %d: %s", k, len(evs), msg), map[string]any{"index": k}) {
					return false
				}
			}
		}
		// every value handed to a callback still is what it was when handed over
		for k, e := range evs {
			what := ""
			switch {
			case e.keep != nil && !bytes.Equal(e.keep, e.Bytes):
				what = "the raw payload slice"
			case e.keepP != nil && !bytes.Equal(e.keepP, e.PHash):
				what = "the rollback point's hash"
			case e.keepT != nil && !bytes.Equal(e.keepT, e.Tip.Hash):
				what = "the tip's hash"
			}
			switch v := e.obj.(type) {
			case ledger.Block:
				if !bytes.Equal(v.Cbor(), e.Bytes) || !bytes.Equal(v.Hash().Bytes(), e.Hash) {
					what = "the decoded block"
				}
			case ledger.BlockHeader:
				if !bytes.Equal(v.Cbor(), e.Bytes) || !bytes.Equal(v.Hash().Bytes(), e.Hash) {
					what = "the decoded header"
				}
			}
			if what != "" {
				if !fail("callback-value-changed-later:"+mode, fmt.Sprintf("%s handed to callback %d of %d was modified after the callback returned (later messages overwrote it)", what, k, len(evs)), map[string]any{"index": k}) {
					return false
				}
			}
		}
		return true
	}
	stopRequested := func() bool {
		select {
		case <-log.stopSig:
			return true
		default:
		}
		select {
		case <-stopNow:
			return true
		default:
			return false
		}
	}
	var sr stopRes
	stopReturned := false
	skipped := false
	i := 0
	lastProgress := time.Now()
	mark := func() (int, int, bool, bool, bool, int) {
		return srv.reqs, srv.sent, srv.done, srv.closed, stopReturned, log.waitLen(0, 0, nil)
	}
	idle := ""
	for {
		r0, s0, d0, c0, t0, l0 := mark()
		srv.pump(false, 0)
		if srv.done || srv.closed {
			break
		}
		if !stopReturned {
			select {
			case sr = <-stopCh:
				stopReturned = true
			default:
			}
		}
		if cs.StopAfter < 0 && i >= n && !stopRequested() && log.waitLen(0, 0, nil) >= n {
			// the whole history was delivered: stop now (the client may be idle
			// or have requests outstanding)
			if skipStop {
				skipped = true
				break
			}
			close(stopNow)
		}
		if len(srv.queue) > 0 && srv.queue[0] == 'F' {
			srv.answerF()
			if err := srv.flush(); err != nil {
				srv.closed = true
				break
			}
			lastProgress = time.Now()
			continue
		}
		if srv.reqs > srv.sent && (i < n || ((stopRequested() || srv.hasF()) && i < fillerCap)) {
			if err := srv.reply(i); err != nil {
				srv.closed = true
				break
			}
			i++
			lastProgress = time.Now()
			continue
		}
		if err := srv.flush(); err != nil {
			srv.closed = true
			break
		}
		srv.pump(true, 5*time.Millisecond)
		if r1, s1, d1, c1, t1, l1 := mark(); r1 != r0 || s1 != s0 || d1 != d0 || c1 != c0 || t1 != t0 || l1 != l0 {
			lastProgress = time.Now()
		}
		if stopReturned && srv.reqs <= srv.sent {
			// Stop() returned and the server owes nothing: MsgDone or the end of
			// the connection is due now
			b := c21PostStopBound
			if notEndedShort(rec, mode) {
				b = c21ShortGrace
			}
			if time.Since(lastProgress) > b {
				idle = "stop:conversation-not-ended"
				break
			}
		}
		if stopRequested() && !stopReturned && time.Since(lastProgress) > stopBound {
			idle = "stop:hang"
			break
		}
		if time.Since(lastProgress) > stallBound {
			switch {
			case stopReturned:
				idle = "stop:conversation-not-ended"
			case stopRequested():
				idle = "stop:hang"
			default:
				idle = "stall"
			}
			break
		}
	}
	_ = srv.flush()
	rec.Eval()
	rec.Class(mode)
	rec.Class(lim)
	if cs.Pipeline {
		rec.Class("with_block_pipeline")
	}

	if srv.viol != "" {
		if !fail(fmt.Sprintf("pipeline-limit-exceeded:%s:%s", mode, lim), srv.viol, nil) {
			return
		}
	}
	if srv.unexp != "" {
		if !fail("unexpected-client-message:"+mode, srv.unexp, nil) {
			return
		}
	}
	dump := func() map[string]any {
		return map[string]any{"goroutines": goroutineDump(fmt.Sprintf("%p", client), "chainsync"), "callbacks": log.waitLen(0, 0, nil),
			"requests_seen": srv.reqs, "replies_sent": srv.sent}
	}
	switch idle {
	case "stall":
		fail(fmt.Sprintf("stall:%s:%s", mode, lim),
			fmt.Sprintf("no progress for %v: %d of %d replies sent, %d RequestNext seen, %d callbacks fired, Stop not requested", stallBound, srv.sent, n, srv.reqs, log.waitLen(0, 0, nil)), dump())
		return
	case "stop:hang":
		if lf >= 5 && !rec.IsKnown(stopHangKey(mode, lim)) {
			// a machine this slow proves nothing: inconclusive, not a violation
			rec.Class("stop_hang_inconclusive_slow_machine")
			return
		}
		k := stopHangKey(mode, lim)
		noteStopHang(k)
		fail(k, fmt.Sprintf("Stop() did not return: no progress for %v after it was called (%d RequestNext seen, %d replies sent, %d callbacks)", stopBound, srv.reqs, srv.sent, log.waitLen(0, 0, nil)), dump())
		return
	case "stop:conversation-not-ended":
		// requests the client sent whose replies never reached a handler
		inflight := srv.reqs - int(trace.handled.Load()-handledBase)
		cls := "requests-in-flight"
		if inflight <= 0 {
			cls = "client-idle"
		}
		key := "stop:no-done-connection-left-open:" + cls
		noteNotEnded(key)
		if !fail(key,
			fmt.Sprintf("Stop() returned (err=%v) but the server saw neither MsgDone nor the end of the connection: the client sent %d RequestNext, the server answered all %d, the client handled %d replies (%d requests in flight); the conversation is simply abandoned and the connection stays open",
				sr.err, srv.reqs, srv.sent, trace.handled.Load()-handledBase, inflight), dump()) {
			return
		}
		rec.Class("stop_left_conversation_open")
	}
	if skipped {
		s.close()
		closed = true
		stopPipeline()
		rec.Class("stop_skipped_known_hang_config")
		if compareLog(false) && n >= 3 {
			rec.NonTrivial(caseKey(cs), caseSummary(cs))
		}
		return
	}
	if cs.CbErrAt > 0 && !stopRequested() && log.waitLen(0, 0, nil) >= cs.CbErrAt {
		// a callback refused its message: the client may end the conversation;
		// what it delivered must be right and Stop() must still return
		rec.Class("callback_error_ended_conversation")
		close(stopNow)
		select {
		case sr = <-stopCh:
		case <-time.After(stopBound):
			fail("stop:hang-after-callback-error:"+mode, fmt.Sprintf("Stop() did not return within %v after a callback error ended the conversation", stopBound), dump())
			return
		}
		s.close()
		closed = true
		stopPipeline()
		if compareLog(false) && n >= 3 {
			rec.NonTrivial(caseKey(cs), caseSummary(cs))
		}
		return
	}
	if !stopRequested() {
		fail("unexpected-end:"+mode, fmt.Sprintf("the client ended the conversation (MsgDone=%v, connection closed=%v) after %d of %d replies although Stop was not called", srv.done, srv.closed, srv.sent, n), nil)
		return
	}
	if !stopReturned {
		select {
		case sr = <-stopCh:
		case <-time.After(stopBound):
			k := stopHangKey(mode, lim)
			noteStopHang(k)
			fail(k, fmt.Sprintf("Stop() did not return within %v after the conversation ended", stopBound), dump())
			return
		}
	}
	switch {
	case srv.done:
		rec.Class("stop_ended_with_done")
	case srv.closed:
		rec.Class("stop_ended_with_connection_close")
	}
	if sr.err != nil {
		rec.Class("stop_returned_error")
	}
	if cs.TipAt > 0 {
		select {
		case <-tipRet:
			rec.Class("concurrent_get_current_tip_returned")
		case <-time.After(300 * time.Millisecond):
			rec.Class("concurrent_get_current_tip_still_blocked")
		}
	}
	firstLen := len(log.snapshot())
	restarted := false
	if cs.Restart && srv.done && !cs.Pipeline && log.afterStopCount() == 0 && firstLen == sr.atLen {
		// The conversation ended with MsgDone: the same client object is started
		// again and must deliver a second history exactly as a fresh one would.
		restarted = true
		logLimit = firstLen
		rec.Class("restart_second_sync")
		log.mu.Lock()
		log.stopRet = false
		log.mu.Unlock()
		client.Start()
		const base = 5000 // replies 5000.. are RollForwards of a fixture block with their own tips
		n2 := 2 + int(cs.Seed%7)
		pts2, nodes2 := mkPoints(-50, 1)
		ch := make(chan error, 1)
		go func() { ch <- client.Sync(pts2) }()
		if !expect(xcbor.A(xcbor.U(4), xcbor.A(nodes2...)).Encode()) {
			fail("restart:no-find-intersect:"+mode, "after Stop() (MsgDone sent) and Start() a second Sync put no matching FindIntersect on the wire", dump())
			return
		}
		_ = s.peer.SendMsg(proto, true, xcbor.A(xcbor.U(5), nodes2[0], cs.tip(-51).node()).Encode())
		select {
		case err := <-ch:
			if err != nil {
				fail("restart:sync-error:"+mode, fmt.Sprintf("second Sync on the restarted client failed: %v", err), nil)
				return
			}
		case <-time.After(stallBound):
			fail("restart:sync-hang:"+mode, "second Sync on the restarted client did not return", dump())
			return
		}
		srv2 := &csServer{p: s.peer, proto: proto, c: cs, bound: srv.bound}
		deadline := time.Now().Add(stallBound)
		for j := 0; j < n2 && time.Now().Before(deadline) && !srv2.closed && !srv2.done; {
			srv2.pump(true, 5*time.Millisecond)
			if len(srv2.queue) > 0 && srv2.queue[0] == 'F' {
				// the concurrent GetCurrentTip of this case arrived in the second conversation
				srv2.answerF()
				_ = srv2.flush()
				continue
			}
			if srv2.reqs > srv2.sent {
				if err := srv2.reply(base + j); err != nil {
					break
				}
				j++
			}
		}
		_ = srv2.flush()
		got := log.waitLen(firstLen+n2, stallBound, nil)
		if srv2.viol != "" {
			if !fail(fmt.Sprintf("pipeline-limit-exceeded:%s:%s", mode, lim), "after a restart: "+srv2.viol, nil) {
				return
			}
		}
		if got < firstLen+n2 {
			fail("restart:callback-missing:"+mode, fmt.Sprintf("restarted client: %d callbacks for %d replies of the second history (requests seen %d)", got-firstLen, srv2.sent, srv2.reqs), dump())
			return
		}
		evs2 := log.snapshot()[firstLen:]
		for k, e := range evs2 {
			if k >= n2 {
				break
			}
			if msg := cmpEvent(cs, base+k, cs.item(base+k), e); msg != "" {
				if !fail("restart:callback-"+strings.SplitN(msg, ":", 2)[0]+":"+mode, fmt.Sprintf("restarted client, callback %d of the second history: %s", k, msg), nil) {
					return
				}
			}
		}
		// the second conversation is ended by closing the connection (the known
		// Stop() findings would only cost time here)
	}
	s.close()
	closed = true
	stopPipeline()
	log.mu.Lock()
	late := log.afterStop
	final := len(log.ev)
	log.mu.Unlock()
	if cs.Pipeline || restarted {
		final = sr.atLen // apply calls are asynchronous; only direct callbacks count (afterStop)
	}
	if restarted {
		late = 0 // judged before the restart
	}
	if late > 0 || final != sr.atLen {
		if !fail("stop:callback-after-stop:"+mode, fmt.Sprintf("%d callback(s) fired after Stop() had returned (log %d -> %d)", max(late, final-sr.atLen), sr.atLen, final), nil) {
			return
		}
	}

	if !compareLog(true) {
		return
	}
	rec.Class(fmt.Sprintf("max_outstanding_%s", outClass(srv.maxOut, srv.bound)))
	if cs.StopAfter > 0 {
		rec.Class("stop_mid_history")
	} else {
		rec.Class("stop_after_history")
	}
	if n >= 3 {
		rec.NonTrivial(caseKey(cs), caseSummary(cs))
	}
}

// Full-bound confirmations of the "conversation not ended" known finding per
// process; further hits of a listed key only get the short grace period.
var (
	c21NotEndedMu   sync.Mutex
	c21NotEndedSeen = map[string]int{}
)

func stopHangKey(mode, lim string) string { return "stop:hang:" + lim }

var c21StopHangSeen = map[string]int{}

func noteStopHang(key string) {
	c21NotEndedMu.Lock()
	c21StopHangSeen[key]++
	c21NotEndedMu.Unlock()
}

func stopHangExhausted(rec *evi.Recorder, key string) bool {
	if !rec.IsKnown(key) {
		return false
	}
	c21NotEndedMu.Lock()
	defer c21NotEndedMu.Unlock()
	return c21StopHangSeen[key] >= rec.Pick(1, 2)
}

func noteNotEnded(key string) {
	c21NotEndedMu.Lock()
	c21NotEndedSeen[key]++
	c21NotEndedMu.Unlock()
}

func notEndedShort(rec *evi.Recorder, mode string) bool {
	key := "stop:no-done-connection-left-open:requests-in-flight"
	if !rec.IsKnown(key) {
		return false
	}
	c21NotEndedMu.Lock()
	defer c21NotEndedMu.Unlock()
	return c21NotEndedSeen[key] >= rec.Pick(2, 4)
}

func evKinds(evs []csEvent, from, to int) string {
	var sb strings.Builder
	for i := max(0, from-2); i < min(len(evs), to); i++ {
		fmt.Fprintf(&sb, "#%d:%s ", i, evs[i].Kind)
	}
	return sb.String()
}

func outClass(maxOut, bound int) string {
	switch {
	case maxOut == bound:
		return "eq_limit"
	case maxOut > bound:
		return "gt_limit"
	case maxOut <= 1:
		return "le_1"
	default:
		return "lt_limit"
	}
}

func cmpEvent(cs *c21Case, k int, it csItem, e csEvent) string {
	if e.Kind != it.Kind {
		return fmt.Sprintf("kind: callback is %q, reply %d was %q", e.Kind, k, it.Kind)
	}
	want := cs.tip(k)
	if !tipEq(e.Tip, want) {
		return fmt.Sprintf("tip: callback got %v, reply carried %v", e.Tip, want)
	}
	if it.Kind == "back" {
		slot, hash := cs.backPoint(k)
		if e.Slot != slot || !bytes.Equal(e.PHash, hash) {
			return fmt.Sprintf("point: callback got (%d,%x), reply carried (%d,%x)", e.Slot, e.PHash, slot, hash)
		}
		return ""
	}
	b := cs.blkAt(k)
	if e.Type != b.Type {
		return fmt.Sprintf("blocktype: callback got %d, reply carried a type-%d block", e.Type, b.Type)
	}
	wantBytes := b.Bytes
	if cs.NtN {
		wantBytes = b.Header
	}
	if !bytes.Equal(e.Bytes, wantBytes) {
		return fmt.Sprintf("payload: callback got %s.. (%d bytes), reply carried %s.. (%d bytes)", short(e.Bytes), len(e.Bytes), short(wantBytes), len(wantBytes))
	}
	if !cs.Raw && !(cs.Pipeline && e.Hash == nil) && !bytes.Equal(e.Hash, b.Hash) {
		return fmt.Sprintf("payload: callback object hashes to %x, reference %x", e.Hash, b.Hash)
	}
	return ""
}

// caseKey is the canonical description used for distinctness.
func caseKey(cs *c21Case) string {
	var sb strings.Builder
	fmt.Fprintf(&sb, "ntn=%v limit=%d raw=%v stop=%d cb=%v pl=%v/%d/%d/%d pre=%v sc=%v tip=%d err=%d rs=%v is=%v ", cs.NtN, cs.Limit, cs.Raw, cs.StopAfter, cs.CbDelayUs, cs.Pipeline, cs.PipeWorker, cs.PipeBuf, cs.HoldFwd, cs.Pre, cs.Scribble, cs.TipAt, cs.CbErrAt, cs.Restart, cs.IsectSpec)
	for _, it := range cs.History {
		c := byte('f')
		if it.Kind == "back" {
			c = 'b'
		}
		if it.Await {
			c -= 32
		}
		sb.WriteByte(c)
		if it.Hold {
			sb.WriteByte('+')
		}
		if it.Kind == "fwd" {
			fmt.Fprintf(&sb, "%d", it.Blk.Fixture)
		}
	}
	return sb.String()
}

// caseSummary is what is written to samples/replays: full parameters, the
// history as a compact string and (when short) in full.
func caseSummary(cs *c21Case) map[string]any {
	var sb strings.Builder
	for _, it := range cs.History {
		c := "f"
		if it.Kind == "back" {
			c = "b"
		}
		if it.Await {
			c = "A" + c
		}
		sb.WriteString(c)
		if it.PtSpec > 0 {
			fmt.Fprintf(&sb, "%d", it.PtSpec)
		}
		if it.Origin {
			sb.WriteString("o")
		}
		if it.TipSpec > 0 {
			fmt.Fprintf(&sb, "^%d", it.TipSpec)
		}
		if it.Hold {
			sb.WriteString("+")
		}
		sb.WriteString(" ")
	}
	out := map[string]any{
		"ntn": cs.NtN, "pipeline_limit": cs.Limit, "raw_callback": cs.Raw, "seed": cs.Seed,
		"n": len(cs.History), "stop_after": cs.StopAfter, "cb_delay_us": cs.CbDelayUs,
		"client_read_plan": cs.ClientPlan, "server_read_plan": cs.ServerPlan,
		"block_pipeline": cs.Pipeline, "pipeline_workers": cs.PipeWorker, "pipeline_buffer": cs.PipeBuf, "hold_in_decode": cs.HoldFwd,
		"pre_steps": cs.Pre, "scribble_received": cs.Scribble, "get_current_tip_at": cs.TipAt, "callback_error_at": cs.CbErrAt, "restart_after_stop": cs.Restart, "special_intersect": cs.IsectSpec,
		"history": strings.TrimSpace(sb.String()),
		"legend":  "f RollForward, b RollBackward (b1..b4 special point, bo origin), A preceded by AwaitReply, ^k special tip, + shares a segment with the next reply",
	}
	if len(cs.History) <= 12 {
		out["items"] = cs.History
	}
	return out
}
