package chainclients

import (
	"encoding/hex"
	"os"
	"testing"

	"verif/harness/internal/evi"
)

// Minimal reproductions of the confirmed defects, as fixed cases run through
// the same case runners as the generated search, with no known findings loaded
// (so each defect shows up as a test failure on a tree that has it and as a
// pass on a tree that does not):
//
//	cd /verif/harness && VERIF_REPRO=1 go test -tags verif -count=1 -v \
//	    -run 'TestRepro/C23-nonmatching' ./props/chainclients
func reproRecorder(t *testing.T, id string) *evi.Recorder {
	if os.Getenv("VERIF_REPRO") == "" {
		t.Skip("set VERIF_REPRO=1 to run the minimal reproductions")
	}
	d := t.TempDir()
	t.Setenv("VERIF_ROOT", d) // no known findings, replays and evidence go to the temp dir
	t.Setenv("VERIF_EVIDENCE_OUT", d+"/evidence.json")
	t.Setenv("VERIF_REPLAY_DIR", d)
	return evi.New(t, id, evi.Exploration, "fixed reproduction case")
}

func TestRepro(t *testing.T) {
	want := bases()[2] // the mainnet Shelley fixture
	single := func(shape string, serve ...blkRef) c23Case {
		op := c23Op{Kind: "single", Shape: shape, ReqHash: hex.EncodeToString(want.Hash), ReqSlot: want.Slot, Serve: serve}
		for range opMessages(op) {
			op.Flush = append(op.Flush, true)
			op.GapUs = append(op.GapUs, 0)
		}
		return c23Case{Ops: []c23Op{op}}
	}
	c23 := map[string]c23Case{
		// GetBlock(shelley point) answered StartBatch, Block(mary block), BatchDone
		"C23-nonmatching": single(shNonMatch, blkRef{Fixture: 5}),
		// GetBlock answered StartBatch, BatchDone
		"C23-empty-batch": single(shEmpty),
		// GetBlock answered StartBatch, Block(requested), Block(requested), BatchDone
		"C23-several": single(shSeveral, blkRef{Fixture: 2}, blkRef{Fixture: 2}),
	}
	for name, cs := range c23 {
		t.Run(name, func(t *testing.T) {
			rec := reproRecorder(t, "C23")
			defer rec.Finish()
			runC23(t, rec, cs, nil, nil)
		})
	}

	fwd := func(n int) []csItem {
		var out []csItem
		for i := 0; i < n; i++ {
			out = append(out, csItem{Kind: "fwd", Blk: blkRef{Fixture: 3}})
		}
		return out
	}
	c21 := map[string]c21Case{
		// Sync, 3 RollForwards delivered, Stop() while the pipelined requests are unanswered
		"C21-stop-leaves-conversation-open": {Limit: 5, Raw: true, Seed: 1, History: fwd(3), CbDelayUs: []int{0}, StopAfter: -1, HoldFwd: -1},
		// the same with PipelineLimit 100: Stop() never returns
		"C21-stop-deadlock-limit100": {Limit: 100, Raw: true, Seed: 1, History: fwd(3), CbDelayUs: []int{0}, StopAfter: -1, HoldFwd: -1},
		// block pipeline: RollForward (held in the decode worker), RollBackward
		"C21-pipeline-rollback-overtakes": {Limit: 1, Raw: true, Seed: 1, History: []csItem{{Kind: "fwd", Blk: blkRef{Fixture: 3}}, {Kind: "back"}, {Kind: "fwd", Blk: blkRef{Fixture: 3}}},
			CbDelayUs: []int{0}, StopAfter: -1, Pipeline: true, PipeWorker: 1, PipeBuf: 16, HoldFwd: 0},
	}
	for name, cs := range c21 {
		t.Run(name, func(t *testing.T) {
			rec := reproRecorder(t, "C21")
			defer rec.Finish()
			installC21Tracer()
			runC21(t, rec, &cs, nil, nil)
		})
	}
}
