// Package chainclients holds the checks for the chain-sync client (C21) and
// the block-fetch client (C23): a real ouroboros.Connection (initiator side)
// talks over an in-memory rawpeer.Pipe to a scripted raw server that is
// written in the harness (independent segment framing + independent CBOR).
package chainclients

import (
	"flag"
	"fmt"
	"runtime"
	"strings"
	"sync"
	"time"

	ouroboros "github.com/blinklabs-io/gouroboros"
	"github.com/blinklabs-io/gouroboros/ledger"
	lcommon "github.com/blinklabs-io/gouroboros/ledger/common"
	"golang.org/x/crypto/blake2b"
	"pgregory.net/rapid"

	"verif/harness/internal/fixtures"
	"verif/harness/internal/rawpeer"
	"verif/harness/internal/xcbor"
)

// Mini-protocol numbers (verified against protocol/chainsync/chainsync.go and
// protocol/blockfetch/blockfetch.go).
const (
	protoChainSyncNtN uint16 = 2
	protoBlockFetch   uint16 = 3
	protoChainSyncNtC uint16 = 5
)

const testMagic = 764824073

// ---- blocks -----------------------------------------------------------------

// blk is a served block together with everything the oracle needs about it,
// all of it derived independently of the library (xcbor offsets + blake2b).
type blk struct {
	Name   string
	Type   uint   // ledger block type id
	Bytes  []byte // block CBOR
	Header []byte // CBOR of the header item (first element of the block array)
	Hash   []byte // blake2b-256 of the header (Byron: of [tag, header])
	Slot   uint64 // slot as the library reports it (input realism only, never used by an oracle)
}

// refHash computes the header hash of a block from its bytes alone.
func refHash(typ uint, block []byte) (hash, header []byte, err error) {
	n, err := xcbor.ParseExact(block)
	if err != nil {
		return nil, nil, err
	}
	if n.Kind != xcbor.Array || len(n.Items) < 1 {
		return nil, nil, fmt.Errorf("block is not an array")
	}
	hdr := n.Items[0].Src(block)
	var pre []byte
	switch typ {
	case fixtures.TypeByronEbb:
		pre = []byte{0x82, 0x00}
	case fixtures.TypeByronMain:
		pre = []byte{0x82, 0x01}
	}
	h := blake2b.Sum256(append(append([]byte{}, pre...), hdr...))
	return h[:], append([]byte(nil), hdr...), nil
}

// prevHashRange locates the 32 payload bytes of the previous-block hash inside
// the header (Byron: header[1]; Shelley and later: header[0][2]). Nothing in a
// decoder depends on that field, so overwriting it yields a new, equally
// well-formed block with a different header hash.
func prevHashRange(typ uint, block []byte) (int, int, bool) {
	n, err := xcbor.ParseExact(block)
	if err != nil || n.Kind != xcbor.Array || len(n.Items) < 1 {
		return 0, 0, false
	}
	hdr := n.Items[0]
	var ph *xcbor.Node
	switch typ {
	case fixtures.TypeByronEbb, fixtures.TypeByronMain:
		if hdr.Kind == xcbor.Array && len(hdr.Items) > 1 {
			ph = hdr.Items[1]
		}
	default:
		if hdr.Kind == xcbor.Array && len(hdr.Items) > 0 && hdr.Items[0].Kind == xcbor.Array && len(hdr.Items[0].Items) > 2 {
			ph = hdr.Items[0].Items[2]
		}
	}
	if ph == nil || ph.Kind != xcbor.Bytes || ph.Indef || len(ph.Data) != 32 {
		return 0, 0, false
	}
	return ph.End - 32, ph.End, true
}

var (
	baseOnce   sync.Once
	baseBlocks []blk
	baseErr    error
)

func mkBlk(name string, typ uint, data []byte) (blk, error) {
	h, hdr, err := refHash(typ, data)
	if err != nil {
		return blk{}, err
	}
	b, err := ledger.NewBlockFromCbor(typ, data, lcommon.VerifyConfig{})
	if err != nil {
		return blk{}, fmt.Errorf("%s does not decode: %w", name, err)
	}
	return blk{Name: name, Type: typ, Bytes: data, Header: hdr, Hash: h, Slot: b.SlotNumber()}, nil
}

// bases returns the fixture blocks; the last one is the 650 KiB Byron EBB,
// which generators draw only rarely and only in the thorough tier (see nSmall).
func bases() []blk {
	baseOnce.Do(func() {
		for _, f := range fixtures.Blocks() {
			b, err := mkBlk(f.Name, f.Type, f.Bytes)
			if err != nil {
				baseErr = err
				return
			}
			baseBlocks = append(baseBlocks, b)
		}
	})
	if baseErr != nil {
		panic(baseErr)
	}
	return baseBlocks
}

// nSmall is the number of fixtures without the trailing EBB.
func nSmall() int { return len(bases()) - 1 }

// variant derives a new block from a fixture by overwriting the previous-hash
// field with salt-derived bytes (salt 0 = the fixture itself).
func variant(base blk, salt uint64) blk {
	if salt == 0 {
		return base
	}
	lo, hi, ok := prevHashRange(base.Type, base.Bytes)
	if !ok {
		return base
	}
	data := append([]byte(nil), base.Bytes...)
	seed := blake2b.Sum256([]byte(fmt.Sprintf("%s/%d", base.Name, salt)))
	copy(data[lo:hi], seed[:])
	h, hdr, err := refHash(base.Type, data)
	if err != nil {
		panic(err)
	}
	return blk{Name: fmt.Sprintf("%s~%d", base.Name, salt), Type: base.Type, Bytes: data, Header: hdr, Hash: h, Slot: base.Slot}
}

// ---- wire builders (independent of the library's message encoders) -----------

func pointNode(slot uint64, hash []byte) *xcbor.Node {
	if hash == nil {
		return xcbor.A()
	}
	return xcbor.A(xcbor.U(slot), xcbor.B(hash))
}

func tipNode(slot uint64, hash []byte, blockNo uint64) *xcbor.Node {
	return xcbor.A(pointNode(slot, hash), xcbor.U(blockNo))
}

// ---- session -------------------------------------------------------------------

type session struct {
	oc   *ouroboros.Connection
	peer *rawpeer.Peer
	ca   *rawpeer.FragConn
	cb   *rawpeer.FragConn

	mu   sync.Mutex
	errs []string
	done chan struct{} // closed when the connection's error channel was closed
}

// dial builds the in-memory pipe, answers the handshake as a raw responder and
// returns the established library connection (initiator).
func dial(ntn bool, planClient, planServer rawpeer.Plan, opts ...ouroboros.ConnectionOptionFunc) (*session, error) {
	a, b := rawpeer.Pipe(planClient, planServer)
	s := &session{ca: a, cb: b, peer: rawpeer.NewPeer(b), done: make(chan struct{})}
	hs := make(chan error, 1)
	go func() {
		_, err := s.peer.AcceptHandshake(20*time.Second, nil)
		hs <- err
	}()
	all := []ouroboros.ConnectionOptionFunc{
		ouroboros.WithConnection(a),
		ouroboros.WithNetworkMagic(testMagic),
		ouroboros.WithNodeToNode(ntn),
	}
	all = append(all, opts...)
	oc, err := ouroboros.NewConnection(all...)
	if err != nil {
		_ = a.Close()
		_ = b.Close()
		return nil, fmt.Errorf("NewConnection: %w", err)
	}
	if err := <-hs; err != nil {
		_ = oc.Close()
		_ = b.Close()
		return nil, err
	}
	s.oc = oc
	go func() {
		defer close(s.done)
		for e := range oc.ErrorChan() {
			s.mu.Lock()
			s.errs = append(s.errs, e.Error())
			s.mu.Unlock()
		}
	}()
	return s, nil
}

func (s *session) connErrors() []string {
	s.mu.Lock()
	defer s.mu.Unlock()
	return append([]string(nil), s.errs...)
}

// close tears the session down. Close() of the library connection is run in a
// goroutine with a bound so that a wedged library cannot wedge the harness.
func (s *session) close() {
	fin := make(chan struct{})
	go func() {
		_ = s.oc.Close()
		close(fin)
	}()
	select {
	case <-fin:
	case <-time.After(10 * time.Second):
	}
	s.peer.Close()
	_ = s.ca.Close()
	select {
	case <-s.done:
	case <-time.After(2 * time.Second):
	}
}

// limitShrinkTime: cases decided by bounded liveness cost their full bound on
// every shrink attempt, so rapid's default 30 s of shrinking (checked only
// between attempts) can exhaust the check's time budget. An explicit
// -rapid.shrinktime on the command line is respected.
func limitShrinkTime() {
	if f := flag.Lookup("rapid.shrinktime"); f != nil && f.Value.String() == f.DefValue {
		_ = flag.Set("rapid.shrinktime", "12s")
	}
}

// tb is what the case runners need from *rapid.T / *testing.T.
type tb interface {
	Fatalf(format string, args ...any)
	Helper()
}

// ---- misc -------------------------------------------------------------------------

// goroutineDump returns the stacks (clipped) of the goroutines that mention one
// of the filter strings; goroutines matching the first filter come first. Used
// for bounded-liveness reports.
func goroutineDump(filter ...string) string {
	buf := make([]byte, 8<<20)
	buf = buf[:runtime.Stack(buf, true)]
	gs := strings.Split(string(buf), "\n\n")
	var out []string
	seen := map[int]bool{}
	for _, f := range filter {
		for i, g := range gs {
			if seen[i] || !strings.Contains(g, f) || len(out) >= 10 {
				continue
			}
			seen[i] = true
			lines := strings.Split(g, "\n")
			if len(lines) > 13 {
				lines = lines[:13]
			}
			out = append(out, strings.Join(lines, "\n"))
		}
	}
	return strings.Join(out, "\n\n")
}

func genPlan(rt *rapid.T, label string) rawpeer.Plan {
	switch rapid.IntRange(0, 3).Draw(rt, label+"_plan") {
	case 0:
		return nil
	case 1:
		return &rawpeer.SeqPlan{Chunks: []int{0}, Yields: []int{1}}
	default:
		chunks := rapid.SliceOfN(rapid.SampledFrom([]int{1, 2, 3, 7, 8, 9, 64, 1000, 4096, 0}), 1, 5).Draw(rt, label+"_chunks")
		ys := []int{0, 0, 1, 1, 20, 200}
		for _, c := range chunks {
			if c > 0 && c < 1000 {
				ys = []int{0, 0, 1} // tiny reads: never sleep per read (a 100 KiB block would take minutes)
			}
		}
		yields := rapid.SliceOfN(rapid.SampledFrom(ys), 1, 4).Draw(rt, label+"_yields")
		return &rawpeer.SeqPlan{Chunks: chunks, Yields: yields}
	}
}

func planDesc(p rawpeer.Plan) string {
	sp, ok := p.(*rawpeer.SeqPlan)
	if !ok || sp == nil {
		return "plain"
	}
	return fmt.Sprintf("chunks%v/yields%v", sp.Chunks, sp.Yields)
}

func short(b []byte) string {
	if len(b) > 6 {
		b = b[:6]
	}
	return fmt.Sprintf("%x", b)
}
