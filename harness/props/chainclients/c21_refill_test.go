package chainclients

import (
	"bytes"
	"fmt"
	"os"
	"sync"
	"testing"
	"time"

	ouroboros "github.com/blinklabs-io/gouroboros"
	"github.com/blinklabs-io/gouroboros/protocol/chainsync"
	pcommon "github.com/blinklabs-io/gouroboros/protocol/common"

	"verif/harness/internal/evi"
	"verif/harness/internal/rawpeer"
	"verif/harness/internal/xcbor"
)

// Stop() during a pipeline refill.
//
// A refill queues `limit` RequestNext messages. The protocol send queue holds
// 80 messages and the send loop puts the first k of them (1..20, as many as
// were queued when it looked) into one segment and reads no further message
// before the server has answered those k. So after the first segment of a
// refill the client is in one of three states, which the server can tell from
// k (the number of RequestNext in that segment) alone:
//
//	limit-k  > 80  "mid-refill": the sync loop is blocked in SendMessage with
//	               limit-k-80 requests still to queue;
//	limit-k == 80  "exactly full": the refill is complete and the queue has no
//	               free slot - on the unchanged tree Stop() deadlocks here (the
//	               known finding stop:hang:limit100 is this state for limit 100,
//	               k = 20); these histories are excluded by construction: the
//	               harness never calls Stop() in this state;
//	limit-k  < 80  "room": the refill is complete and the queue has free slots.
//
// In the other two states the harness answers j of the k outstanding requests,
// calls Stop() from another goroutine and keeps answering everything that
// arrives. Stop() must return. k depends on goroutine scheduling, so whole
// batches are served on one connection until a refill shows the wanted state.

type refillTarget struct {
	ntn   bool
	limit int
	state string // "mid" | "room"
	j     int    // answers before Stop(): 0, 1, or -1 = all but one of the k outstanding
}

type refillLog struct {
	mu        sync.Mutex
	tips      []uint64 // block numbers of the tips, in callback order
	bad       string
	stopRet   bool
	afterStop int
}

func refillStateOf(limit, k int) string {
	switch r := limit - k; {
	case r > 80:
		return "mid"
	case r == 80:
		return "exact"
	default:
		return "room"
	}
}

// firstSegmentOfBatch returns how many RequestNext the segment holding request
// number base+1 carries (0 if that request has not arrived yet).
func firstSegmentOfBatch(p *rawpeer.Peer, proto uint16, base int) int {
	seen := 0
	for _, sg := range p.Segs() {
		if sg.ProtoID != proto || sg.Response {
			continue
		}
		n := 0
		for b := sg.Payload; len(b) > 0; {
			node, used, err := xcbor.Parse(b)
			if err != nil {
				break
			}
			if node.Kind == xcbor.Array && len(node.Items) == 1 && node.Items[0].Kind == xcbor.Uint && node.Items[0].Arg == 0 {
				n++
			}
			b = b[used:]
		}
		if n > 0 && seen+n > base {
			if seen != base {
				return -1 // a batch never starts in the middle of a segment
			}
			return n
		}
		seen += n
	}
	return 0
}

// runRefill serves refills on one connection until one shows tg.state, then
// performs the Stop() test. Returns the state that was tested ("" if the
// wanted state did not show up within maxRefills) and whether the case runner
// may go on.
func runRefill(rt tb, rec *evi.Recorder, tg refillTarget, maxRefills int, allowExact bool) (tested string) {
	lg := &refillLog{}
	hdr := bases()[3] // a small Allegra block; NtN sends its header
	payload := hdr.Bytes
	if tg.ntn {
		payload = hdr.Header
	}
	cfg := chainsync.NewConfig(
		chainsync.WithPipelineLimit(tg.limit),
		chainsync.WithIntersectTimeout(120*time.Second),
		chainsync.WithRollForwardRawFunc(func(_ chainsync.CallbackContext, typ uint, data []byte, tip chainsync.Tip) error {
			lg.mu.Lock()
			defer lg.mu.Unlock()
			if lg.stopRet {
				lg.afterStop++
			}
			if !bytes.Equal(data, payload) && lg.bad == "" {
				lg.bad = fmt.Sprintf("callback %d: payload %s.. (%d bytes), sent %s.. (%d bytes)", len(lg.tips), short(data), len(data), short(payload), len(payload))
			}
			lg.tips = append(lg.tips, tip.BlockNumber)
			return nil
		}),
		chainsync.WithRollBackwardFunc(func(chainsync.CallbackContext, pcommon.Point, chainsync.Tip) error {
			lg.mu.Lock()
			lg.bad = "a RollBackward callback fired although none was sent"
			lg.mu.Unlock()
			return nil
		}),
	)
	t0 := time.Now()
	s, err := dial(tg.ntn, nil, nil, ouroboros.WithChainSyncConfig(cfg))
	if err != nil {
		rt.Fatalf("harness: dial: %v", err)
	}
	defer s.close()
	lf := max(1, min(time.Since(t0)/(10*time.Millisecond), 6))
	stallBound, stopBound := c21Bound*lf, c21StopBound*min(lf, 2)
	client := s.oc.ChainSync().Client
	proto := protoChainSyncNtC
	mode := "ntc"
	if tg.ntn {
		proto, mode = protoChainSyncNtN, "ntn"
	}
	cs := &c21Case{NtN: tg.ntn, Limit: tg.limit, Raw: true, Seed: uint64(tg.limit)*31 + uint64(tg.j+2)}
	desc := map[string]any{"ntn": tg.ntn, "pipeline_limit": tg.limit, "wanted_state": tg.state, "answers_before_stop": tg.j}
	fail := func(key, what string, extra map[string]any) bool {
		obj := map[string]any{"case": desc, "conn_errors": s.connErrors()}
		for k, v := range extra {
			obj[k] = v
		}
		return rec.Fail(rt, key, what, obj)
	}
	dump := func() map[string]any {
		return map[string]any{"goroutines": goroutineDump(fmt.Sprintf("%p", client), "chainsync")}
	}

	syncErr := make(chan error, 1)
	go func() { syncErr <- client.Sync(nil) }()
	if m, err := s.peer.NextMsg(proto, false, stallBound); err != nil || !sameValue(m, xcbor.A(xcbor.U(4), xcbor.A(xcbor.A())).Encode()) {
		fail("sync:no-find-intersect", fmt.Sprintf("no FindIntersect([origin]) on the wire: %v %x", err, m), dump())
		return
	}
	_ = s.peer.SendMsg(proto, true, xcbor.A(xcbor.U(5), xcbor.A(), cs.tip(-1).node()).Encode())
	select {
	case err := <-syncErr:
		if err != nil {
			fail("sync:error", fmt.Sprintf("Sync failed after IntersectFound: %v", err), nil)
			return
		}
	case <-time.After(stallBound):
		fail("sync:hang", "Sync did not return after IntersectFound", dump())
		return
	}

	srv := &csServer{p: s.peer, proto: proto, c: cs, bound: max(1, tg.limit)}
	reply := func() error {
		tip := csTip{Slot: uint64(srv.sent) + 10, Hash: cs.h(srv.sent, "tiphash"), BlockNo: uint64(srv.sent)}
		srv.pend = append(srv.pend, rollForwardBytes(tg.ntn, hdr, tip)...)
		srv.sent++
		if len(srv.queue) > 0 {
			srv.queue = srv.queue[1:]
		}
		return srv.flush()
	}
	callbacks := func() int {
		lg.mu.Lock()
		defer lg.mu.Unlock()
		return len(lg.tips)
	}
	// serveUntil answers requests until `want` replies have been sent and handled
	serveUntil := func(want int) bool {
		last := time.Now()
		for srv.sent < want || callbacks() < want {
			before := srv.reqs + srv.sent + callbacks()
			srv.pump(true, 2*time.Millisecond)
			if srv.done || srv.closed {
				fail("unexpected-end:"+mode, fmt.Sprintf("the client ended the conversation after %d replies although Stop was not called", srv.sent), nil)
				return false
			}
			for srv.reqs > srv.sent && srv.sent < want {
				if reply() != nil {
					return false
				}
			}
			if srv.reqs+srv.sent+callbacks() != before {
				last = time.Now()
			} else if time.Since(last) > stallBound {
				fail(fmt.Sprintf("stall:%s:limit%d", mode, tg.limit), fmt.Sprintf("no progress for %v: %d RequestNext seen, %d replies sent, %d callbacks", stallBound, srv.reqs, srv.sent, callbacks()), dump())
				return false
			}
		}
		return true
	}
	checkLimit := func() bool {
		if srv.viol != "" {
			return fail(fmt.Sprintf("pipeline-limit-exceeded:%s:limit%d", mode, tg.limit), srv.viol, nil)
		}
		return true
	}

	if !serveUntil(1) { // the first request; its answer triggers the first refill
		return
	}
	searchStart := time.Now()
	for m := 0; m < maxRefills; m++ {
		if time.Since(searchStart) > time.Duration(rec.Pick(12, 45))*time.Second {
			break // wall-clock cap of the search for the scheduling-dependent state
		}
		base := 1 + m*tg.limit
		// wait for the first segment of the refill
		k := 0
		for t1 := time.Now(); k == 0; {
			srv.pump(true, 2*time.Millisecond)
			if k = firstSegmentOfBatch(s.peer, proto, base); k == 0 && time.Since(t1) > stallBound {
				fail(fmt.Sprintf("stall:%s:limit%d", mode, tg.limit), fmt.Sprintf("no refill %v after reply %d was handled", stallBound, base), dump())
				return
			}
		}
		if k < 0 || k > tg.limit {
			rec.Class("refill_segments_not_as_modelled")
			return
		}
		st := refillStateOf(tg.limit, k)
		if os.Getenv("REFILL_PROBE") != "" {
			fmt.Printf("K limit=%d k=%d\n", tg.limit, k)
		}
		rec.Class(fmt.Sprintf("refill:limit=%d:first_segment_%s", tg.limit, st))
		if st != tg.state && !(allowExact && st == "exact") {
			// not the state under test (or the excluded one): a plain well-behaved batch
			if !serveUntil(base+tg.limit) || !checkLimit() {
				return
			}
			continue
		}
		// let the rest of the first segment be counted
		for srv.reqs < base+k {
			srv.pump(true, 2*time.Millisecond)
		}
		j := tg.j
		if j < 0 || j > k-1 {
			j = k - 1
		}
		if !serveUntil(base + j) {
			return
		}
		desc["first_segment_requests"], desc["refill_number"], desc["answered_before_stop"], desc["state"] = k, m+1, j, st
		// ---- Stop() from another goroutine, the peer keeps answering ----
		rec.Eval()
		stopCh := make(chan error, 1)
		go func() {
			err := client.Stop()
			lg.mu.Lock()
			lg.stopRet = true
			lg.mu.Unlock()
			stopCh <- err
		}()
		time.Sleep(min(20*time.Millisecond*lf, 300*time.Millisecond))
		returned := false
		deadline := time.Now().Add(stopBound)
		// Everything on the wire is answered except the very last request of this
		// batch: its answer would start the next refill, whose first segment may
		// leave the send queue exactly full - the excluded known state.
		fillerCap := base + tg.limit - 1
		for !returned && time.Now().Before(deadline) {
			select {
			case <-stopCh:
				returned = true
				continue
			default:
			}
			if !srv.done && !srv.closed {
				srv.pump(true, 2*time.Millisecond)
				for srv.reqs > srv.sent && srv.sent < fillerCap && !srv.done && !srv.closed {
					if reply() != nil {
						srv.closed = true
					}
				}
			} else {
				time.Sleep(2 * time.Millisecond)
			}
		}
		if !returned {
			answeredAll := srv.reqs <= srv.sent || (srv.sent == fillerCap && srv.reqs == fillerCap+1)
			if lf >= 5 || !answeredAll {
				// a machine this slow (or a peer that could not finish answering) proves nothing
				rec.Class("refill_stop_inconclusive_slow")
				return st
			}
			key := fmt.Sprintf("stop:hang-%s:limit=%d", map[string]string{"mid": "mid-refill", "room": "after-refill", "exact": "send-queue-exactly-full"}[st], tg.limit)
			fail(key, fmt.Sprintf("Stop() called during refill %d (limit %d, first segment %d requests, state %q: %d still unqueued / %d queued, %d answered before Stop) did not return within %v although the peer answered %d of the %d requests on the wire (only the last answer of the batch is held back); %d callbacks",
				m+1, tg.limit, k, st, max(0, tg.limit-k-80), min(80, tg.limit-k), j, stopBound, srv.sent, srv.reqs, callbacks()), dump())
			return st
		}
		rec.Class(fmt.Sprintf("refill_stop_returned:%s", st))
		if !checkLimit() {
			return st
		}
		s.close()
		lg.mu.Lock()
		defer lg.mu.Unlock()
		if lg.afterStop > 0 {
			if !fail("stop:callback-after-stop:"+mode, fmt.Sprintf("%d callback(s) fired after Stop() had returned", lg.afterStop), nil) {
				return st
			}
		}
		if lg.bad != "" {
			fail("callback-payload:"+mode, lg.bad, nil)
			return st
		}
		if len(lg.tips) > srv.sent {
			fail("callback-extra:"+mode, fmt.Sprintf("%d callbacks for %d replies", len(lg.tips), srv.sent), nil)
			return st
		}
		for i, bn := range lg.tips {
			if bn != uint64(i) {
				fail("callback-tip:"+mode, fmt.Sprintf("callback %d carried the tip of reply %d", i, bn), nil)
				return st
			}
		}
		rec.NonTrivial(fmt.Sprintf("refill %v", desc), desc)
		return st
	}
	rec.Class(fmt.Sprintf("refill_state_not_reached:limit=%d:%s", tg.limit, tg.state))
	return ""
}

// refillSweep: the deterministic part. Stop() after the refill for the limits
// around the send-queue size, and Stop() in the middle of a refill for limit 100
// (the only listed limit for which a refill can be caught half-queued with
// more than one request on the wire: 2 <= k <= limit-81). Whether a refill
// shows that state depends on goroutine scheduling (about 2-10 % of the
// refills), so up to maxRefills whole batches are served on one connection.
func refillSweep(t *testing.T, rec *evi.Recorder) bool {
	var targets []refillTarget
	for i, l := range []int{1, 2, 10, 79, 80, 81, 82} {
		targets = append(targets, refillTarget{ntn: i%2 == 0, limit: l, state: "room", j: i % 2})
	}
	// answers before Stop(): none, one, all but one - rotated by seed so that the
	// shards of one run and different seeds cover all of them
	j := []int{0, 1, -1}[int(rec.Seed()%3+3)%3]
	targets = append(targets, refillTarget{ntn: rec.Seed()%2 == 0, limit: 100, state: "mid", j: j})
	for _, tg := range targets {
		tg := tg
		n := 3
		if tg.state == "mid" {
			n = rec.Pick(150, 600)
		}
		ok := runFixed(func() {
			rec.Class("refill_sweep")
			runRefill(fixedTB{t}, rec, tg, n, false)
		})
		if !ok {
			fmt.Printf("refill sweep %+v failed\n", tg)
			return false
		}
	}
	return true
}
