package rules2

// C33 -- reward withdrawals are gated on a DRep delegation only at PV10/PV11.
//
// Reference (the table of ARCHITECTURE.md "Conway Reward Withdrawal Gate" and
// the property statement), for a transaction whose withdrawals all come from
// registered reward accounts:
//
//	IsValid=false                              -> the gate is skipped (accept)
//	PV <= 9 or PV >= 12                        -> no delegation requirement (accept)
//	PV 10/11, state has no DRepDelegation      -> DRepDelegationStateUnavailableError
//	    capability, >= 1 non-zero key-hash wdrl
//	PV 10/11, capability present, >= 1 non-zero -> WithdrawalNotDelegatedToDRepError naming
//	    key-hash wdrl without delegation           one of the undelegated non-zero accounts
//	PV 10/11, all non-zero key-hash wdrls       -> accept
//	    delegated
//
// Outside the statement (counted, never judged): script-hash reward accounts,
// zero-amount withdrawals from undelegated accounts at PV10/11 (the Haskell
// ledger gates them, the library documents that it does not), unregistered
// accounts.

import (
	"errors"
	"fmt"
	"sort"
	"strings"
	"testing"

	"github.com/blinklabs-io/gouroboros/ledger"
	"github.com/blinklabs-io/gouroboros/ledger/common"
	"github.com/blinklabs-io/gouroboros/ledger/conway"
	"github.com/blinklabs-io/gouroboros/ledger/dijkstra"
	"pgregory.net/rapid"

	"verif/harness/internal/evi"
)

// noCapState hides every method that is not part of common.LedgerState, in
// particular DRepDelegation: a ledger state without the optional capability.
type noCapState struct{ common.LedgerState }

type c33StateKind int

const (
	c33Delegated c33StateKind = iota
	c33Undelegated
	c33NoCap
	c33PerAccount // capability present, delegation drawn per account (noise)
)

func (k c33StateKind) String() string {
	return [...]string{"delegated", "undelegated", "no-capability", "per-account"}[k]
}

// c33Wd is the harness-side description of one withdrawal.
type c33Wd struct {
	Key        int
	Script     bool // script-hash reward account (outside the statement)
	Amount     uint64
	Registered bool
	Delegated  bool
	// Synthetic: the credential hash is Hash (a special or random value no
	// harness key hashes to) instead of the hash of key Key / its native script.
	Synthetic bool
	Hash      [28]byte `json:"-"`
	HashHex   string   `json:",omitempty"`
	Class     string   // real-key | pool-id | drep-id | all-zero | all-ff | low-one | high-one | random
}

func (w c33Wd) hash() [28]byte {
	switch {
	case w.Synthetic:
		return w.Hash
	case w.Script:
		return policyOfKey(w.Key)
	}
	return keys[w.Key].hash
}

func (w c33Wd) addr(net uint8) []byte {
	return rawRewardAddr(net, w.hash(), w.Script)
}

func (w c33Wd) class() string {
	if w.Class != "" {
		return w.Class
	}
	return "real-key"
}

// c33Special are the credential hashes with special bit patterns; the hash
// value is irrelevant to the statement, so the reference table is unchanged.
var c33Special = func() []c33Wd {
	mk := func(class string, f func(h *[28]byte)) c33Wd {
		w := c33Wd{Synthetic: true, Class: class}
		f(&w.Hash)
		w.HashHex = fmt.Sprintf("%x", w.Hash[:])
		return w
	}
	return []c33Wd{
		mk("all-zero", func(h *[28]byte) {}),
		mk("all-ff", func(h *[28]byte) {
			for i := range h {
				h[i] = 0xff
			}
		}),
		mk("low-one", func(h *[28]byte) { h[27] = 1 }),
		mk("high-one", func(h *[28]byte) { h[0] = 1 }),
	}
}()

func c33Classes(wds []c33Wd) string {
	set := map[string]bool{}
	for _, w := range wds {
		set[w.class()] = true
	}
	var out []string
	for k := range set {
		out = append(out, k)
	}
	sort.Strings(out)
	return strings.Join(out, "+")
}

// c33Accessor is the accessor oracle: Address.StakeCredential() must return
// (credential, true) with the type and the 28 bytes the harness put into the
// address whenever the staking part is a key or script hash -- whatever the
// bytes are -- and (_, false) only for pointer / absent staking parts.
// wantKind: 0 key hash, 1 script hash, -1 none.
func c33Accessor(rec *evi.Recorder, where string, a *common.Address, raw []byte, wantKind int, wantHash [28]byte, class string,
	report func(key, what string, cs any)) {
	cred, ok := a.StakeCredential()
	rec.Eval()
	rec.Class(fmt.Sprintf("accessor:%s:kind=%d:%s", where, wantKind, class))
	form := fmt.Sprintf("header-%x", raw[0]>>4)
	cs := map[string]any{"address": evi.Hex(raw), "want_kind": wantKind, "want_hash": fmt.Sprintf("%x", wantHash[:]),
		"got_ok": ok, "got_type": cred.CredType, "got_hash": fmt.Sprintf("%x", cred.Credential[:])}
	switch {
	case wantKind < 0 && ok:
		report(fmt.Sprintf("C33:accessor:StakeCredential:%s:reports-credential-for-pointer-or-absent-staking-part", form),
			fmt.Sprintf("Address.StakeCredential() of %x returns a credential although the address has no staking credential", raw), cs)
	case wantKind >= 0 && !ok:
		report(fmt.Sprintf("C33:accessor:StakeCredential:%s:hash=%s:no-credential-reported", form, class),
			fmt.Sprintf("Address.StakeCredential() of %x returns ok=false although the staking part is a %s hash %x",
				raw, map[int]string{0: "key", 1: "script"}[wantKind], wantHash[:]), cs)
	case wantKind >= 0 && (int(cred.CredType) != wantKind || [28]byte(cred.Credential) != wantHash):
		report(fmt.Sprintf("C33:accessor:StakeCredential:%s:hash=%s:wrong-credential", form, class),
			fmt.Sprintf("Address.StakeCredential() of %x returns type %d hash %x, the address carries type %d hash %x",
				raw, cred.CredType, cred.Credential[:], wantKind, wantHash[:]), cs)
	}
}

// c33AddrBytes builds a Shelley address of the given header type (high nibble).
func c33AddrBytes(typ byte, net uint8, pay, stake [28]byte, ptr []byte) (raw []byte, kind int) {
	raw = []byte{typ<<4 | net}
	switch typ {
	case 0, 1, 2, 3:
		raw = append(append(raw, pay[:]...), stake[:]...)
		kind = int(typ >> 1)
	case 4, 5:
		raw = append(append(raw, pay[:]...), ptr...)
		kind = -1
	case 6, 7:
		raw = append(raw, pay[:]...)
		kind = -1
	case 14, 15:
		raw = append(raw, stake[:]...)
		kind = int(typ & 1)
	}
	return raw, kind
}

var c33AddrTypes = []byte{0, 1, 2, 3, 4, 5, 6, 7, 14, 15}

func c33CheckAddr(rec *evi.Recorder, where string, typ byte, net uint8, pay, stake [28]byte, class string, ptr []byte,
	report func(key, what string, cs any)) {
	raw, kind := c33AddrBytes(typ, net, pay, stake, ptr)
	a, err := common.NewAddressFromBytes(raw)
	if err != nil {
		rec.Class(fmt.Sprintf("accessor:%s:address_decode_rejected:type-%x", where, typ))
		return
	}
	c33Accessor(rec, where, &a, raw, kind, stake, class, report)
}

// c33WithdrawalAccessors applies the accessor oracle to the reward addresses
// the library decoded from the transaction's withdrawals.
func c33WithdrawalAccessors(rec *evi.Recorder, where string, dtx ledger.Transaction, net uint8, wds []c33Wd,
	report func(key, what string, cs any)) {
	want := map[string]c33Wd{}
	for _, w := range wds {
		want[string(w.addr(net))] = w
	}
	for a := range dtx.Withdrawals() {
		raw, err := a.Bytes()
		if err != nil {
			continue
		}
		w, ok := want[string(raw)]
		if !ok {
			panic(fmt.Sprintf("harness: decoder reports a withdrawal address %x that was not encoded", raw))
		}
		kind := 0
		if w.Script {
			kind = 1
		}
		c33Accessor(rec, where+":withdrawal", a, raw, kind, w.hash(), w.class(), report)
	}
}

type c33WantKind int

const (
	c33Accept c33WantKind = iota
	c33NotDelegated
	c33Unavailable
	c33Unspecified
)

func (k c33WantKind) String() string {
	return [...]string{"accept", "not-delegated", "state-unavailable", "unspecified"}[k]
}

type c33Want struct {
	Kind  c33WantKind
	Addrs map[string]bool // admissible RewardAddress (hex) of the not-delegated error
	Why   string
}

func pvBand(pv uint) string {
	switch {
	case pv <= 9:
		return "pv<=9"
	case pv <= 11:
		return "pv10-11"
	default:
		return "pv>=12"
	}
}

// c33Ref is the reference model.
func c33Ref(pv uint, isValid bool, hasCap bool, net uint8, wds []c33Wd) c33Want {
	for _, w := range wds {
		if !w.Registered {
			return c33Want{Kind: c33Unspecified, Why: "unregistered account"}
		}
	}
	if !isValid {
		return c33Want{Kind: c33Accept, Why: "phase-2-invalid: gate skipped"}
	}
	if pv != 10 && pv != 11 {
		return c33Want{Kind: c33Accept, Why: "no requirement outside PV10/11"}
	}
	// the admissible address set also contains undelegated non-zero script
	// accounts: the library may name any account it rejects
	named := map[string]bool{}
	nzKey, nzKeyUndeleg, outside := 0, 0, 0
	for _, w := range wds {
		switch {
		case w.Script && w.Amount > 0:
			outside++
			if !w.Delegated {
				named[fmt.Sprintf("%x", w.addr(net))] = true
			}
		case w.Script:
			// zero-amount script account: nothing is claimed
		case w.Amount == 0:
			if !w.Delegated || !hasCap {
				outside++
			}
		default:
			nzKey++
			if !w.Delegated {
				nzKeyUndeleg++
				named[fmt.Sprintf("%x", w.addr(net))] = true
			}
		}
	}
	if !hasCap {
		if nzKey > 0 {
			return c33Want{Kind: c33Unavailable, Why: "PV10/11, non-zero key-hash withdrawal, no capability"}
		}
		if outside > 0 {
			return c33Want{Kind: c33Unspecified, Why: "only zero-amount / script withdrawals on a state without the capability"}
		}
		return c33Want{Kind: c33Accept, Why: "no withdrawals that could be gated"}
	}
	if nzKeyUndeleg > 0 {
		return c33Want{Kind: c33NotDelegated, Addrs: named, Why: "PV10/11, undelegated non-zero key-hash withdrawal"}
	}
	for _, w := range wds {
		if (w.Script && w.Amount > 0 && !w.Delegated) || (!w.Script && w.Amount == 0 && !w.Delegated) {
			return c33Want{Kind: c33Unspecified, Why: "undelegated zero-amount or script-hash withdrawal only"}
		}
	}
	return c33Want{Kind: c33Accept, Why: "every non-zero key-hash withdrawal is delegated"}
}

// c33Got classifies a library result.
type c33Got struct {
	Class string // nil | not-delegated | state-unavailable | unregistered | other
	Addr  string
	Err   string
}

func c33Classify(err error) c33Got {
	if err == nil {
		return c33Got{Class: "nil"}
	}
	g := c33Got{Err: err.Error()}
	var nd conway.WithdrawalNotDelegatedToDRepError
	var ndp *conway.WithdrawalNotDelegatedToDRepError
	var un conway.DRepDelegationStateUnavailableError
	var unp *conway.DRepDelegationStateUnavailableError
	var ur conway.WithdrawalFromUnregisteredRewardAccountError
	switch {
	case errors.As(err, &nd):
		g.Class = "not-delegated"
		b, _ := nd.RewardAddress.Bytes()
		g.Addr = fmt.Sprintf("%x", b)
	case errors.As(err, &ndp):
		g.Class = "not-delegated"
		b, _ := ndp.RewardAddress.Bytes()
		g.Addr = fmt.Sprintf("%x", b)
	case errors.As(err, &un), errors.As(err, &unp):
		g.Class = "state-unavailable"
	case errors.As(err, &ur):
		g.Class = "unregistered"
	default:
		g.Class = "other"
	}
	return g
}

// c33Judge returns "" when got is consistent with want, else the kind of disagreement.
func c33Judge(want c33Want, got c33Got) string {
	switch want.Kind {
	case c33Accept:
		if got.Class != "nil" {
			return "rejected-with-" + got.Class
		}
	case c33NotDelegated:
		switch {
		case got.Class == "nil":
			return "accepted-undelegated"
		case got.Class != "not-delegated":
			return "wrong-error-" + got.Class
		case !want.Addrs[got.Addr]:
			return "names-wrong-account"
		}
	case c33Unavailable:
		switch {
		case got.Class == "nil":
			return "accepted-without-capability"
		case got.Class != "state-unavailable":
			return "wrong-error-" + got.Class
		}
	}
	return ""
}

func c33Params(p Params, kind string) common.ProtocolParameters {
	if kind == "dijkstra" {
		return p.forEra(Dijkstra)
	}
	return p.forEra(Conway)
}

// c33Phase2 adds the phase-2 machinery (a spending redeemer, a PlutusV3
// script witness, collateral) that a transaction needs to carry IsValid=false.
func c33Phase2(tx *TxSpec, p Params, coll In) {
	tx.Rdms = []Rdm{{Tag: 0, Index: 0, Mem: 1000, Steps: 1000}}
	tx.RdmMap = true
	tx.Plutus = []PScript{{Lang: 3, Bytes: []byte{0x45, 1, 1, 0, 0x24, 0x99}}}
	tx.CostModels = p.CostModels
	tx.Coll = []In{coll}
}

// c33Decode decodes the transaction and applies IsValid=false (Conway: the
// envelope flag; Dijkstra: as the block decoder does, from the invalid list).
func c33Decode(tx *TxSpec, invalid bool) (ledger.Transaction, []byte, error) {
	tx.Invalid = invalid && tx.Era != Dijkstra
	raw, _ := tx.Encode()
	dtx, err := decodeTx(tx.Era, raw)
	if err != nil {
		return nil, raw, err
	}
	if invalid && tx.Era == Dijkstra {
		d, ok := dtx.(*dijkstra.DijkstraTransaction)
		if !ok {
			return nil, raw, fmt.Errorf("unexpected type %T", dtx)
		}
		d.TxIsValid = false
	}
	if dtx.IsValid() == invalid {
		return nil, raw, fmt.Errorf("IsValid()=%v, wanted %v", dtx.IsValid(), !invalid)
	}
	return dtx, raw, nil
}

// c33State prepares the library-side state: registration and delegation of the
// withdrawing accounts are set exactly as described.
func c33State(c *Case, wds []c33Wd, hasCap bool) (common.LedgerState, error) {
	st, err := c.state()
	if err != nil {
		return nil, err
	}
	for _, w := range wds {
		h := w.hash()
		delete(st.stakeReg, h)
		delete(st.drepDeleg, h)
		if w.Registered {
			st.stakeReg[h] = true
		}
		if w.Delegated {
			st.drepDeleg[h] = true
		}
	}
	if !hasCap {
		return noCapState{st}, nil
	}
	return st, nil
}

var c33HistCache = map[string]ledger.Transaction{}

// c33HistoryTx is a fixed other transaction of the era (a non-zero withdrawal
// from key 5, one input that is in nobody's UTxO) used by the history family.
func c33HistoryTx(era Era, net uint8) ledger.Transaction {
	k := fmt.Sprintf("%s/%d", era, net)
	if t, ok := c33HistCache[k]; ok {
		return t
	}
	tx := &TxSpec{Era: era, Net: net, Fee: 400_000}
	tx.Ins = []In{{TxID: hash256([]byte("c33/history/in")), Ix: 0, Key: 1, V: Val{Coin: 50_000_000}}}
	tx.Wdrl = []Wd{{Key: 5, Amount: 3}}
	tx.Outs = []Out{{Addr: payAddr(net, 2), V: Val{Coin: 50_000_000 + 3 - tx.Fee}}}
	raw, _ := tx.Encode()
	dtx, err := decodeTx(era, raw)
	if err != nil {
		panic(err)
	}
	c33HistCache[k] = dtx
	return dtx
}

func c33Desc(wds []c33Wd) string {
	var parts []string
	for _, w := range wds {
		id := fmt.Sprintf("k%d", w.Key)
		if w.Synthetic {
			id = "h" + w.HashHex
		}
		parts = append(parts, fmt.Sprintf("%s/script=%v/amt=%d/reg=%v/deleg=%v", id, w.Script, w.Amount, w.Registered, w.Delegated))
	}
	sort.Strings(parts)
	return strings.Join(parts, ",")
}

// c33Eval runs the single rule and (when the parameter type fits the era's
// rule list) the full list, judges both, records evidence.
func c33Eval(rec *evi.Recorder, where string, c *Case, dtx ledger.Transaction, raw []byte, wds []c33Wd,
	pv uint, ppKind string, isValid bool, kind c33StateKind, hasCap bool, pur *purity, hist bool, report func(key, what string, cs any)) {
	era := c.Tx.Era
	p := c.P
	p.Major = pv
	pp := c33Params(p, ppKind)
	ls, err := c33State(c, wds, hasCap)
	if err != nil {
		panic(err)
	}
	pur.watchParams(pp)
	pur.watchState(ls)
	want := c33Ref(pv, isValid, hasCap, c.Tx.Net, wds)
	ruleErr := pur.twice("conway.UtxoValidateWithdrawals", func() error { return conway.UtxoValidateWithdrawals(dtx, c.Slot, ls, pp) })
	gotRule := c33Classify(ruleErr)
	if hist {
		// history independence: validate another transaction on the same state /
		// parameter objects, then this one again; every verdict must equal the
		// one obtained on fresh objects
		other := c33HistoryTx(era, c.Tx.Net)
		usedOther := conway.UtxoValidateWithdrawals(other, c.Slot, ls, pp)
		var usedOtherFull error
		fullOK := !(era == Conway && ppKind != "conway")
		if fullOK {
			usedOtherFull = common.VerifyTransaction(other, c.Slot, ls, pp, rulesFor(era))
		}
		pur.history("conway.UtxoValidateWithdrawals on this transaction after another one", ruleErr, conway.UtxoValidateWithdrawals(dtx, c.Slot, ls, pp))
		ls2, _ := c33State(c, wds, hasCap)
		pp2 := c33Params(p, ppKind)
		pur.history("conway.UtxoValidateWithdrawals on the other transaction", conway.UtxoValidateWithdrawals(other, c.Slot, ls2, pp2), usedOther)
		if fullOK {
			pur.history("VerifyTransaction on the other transaction", common.VerifyTransaction(other, c.Slot, ls2, pp2, rulesFor(era)), usedOtherFull)
		}
	}
	rec.Eval()
	rec.Class(fmt.Sprintf("%s:want_%s", where, want.Kind))
	rec.Class(fmt.Sprintf("%s:rule_%s", where, gotRule.Class))
	for _, w := range wds {
		rec.Class(fmt.Sprintf("%s:acct:%s", where, w.class()))
	}
	nonTrivial := false
	for _, w := range wds {
		if !w.Script && w.Registered {
			nonTrivial = true
		}
		if w.Script {
			rec.Class(where + ":has_script_account")
		}
	}
	caseObj := func(entry string, got c33Got) map[string]any {
		return map[string]any{"entry": entry, "tx_era": era.String(), "pp_type": ppKind, "pv": pv, "is_valid": isValid,
			"state": kind.String(), "has_capability": hasCap, "withdrawals": wds, "want": want.Kind.String(), "why": want.Why,
			"got": got, "tx_cbor": evi.Hex(raw), "net": c.Tx.Net}
	}
	if nonTrivial {
		th := hash256(raw)
		rec.NonTrivial(fmt.Sprintf("%s/%s/pv%d/valid=%v/%s/cap=%v/%s/%x", era, ppKind, pv, isValid, kind, hasCap, c33Desc(wds), th[:6]),
			caseObj("rule", gotRule))
	}
	if want.Kind == c33Unspecified {
		rec.Class(fmt.Sprintf("%s:unspecified(%s):%s:lib_%s", where, want.Why, pvBand(pv), gotRule.Class))
	} else if d := c33Judge(want, gotRule); d != "" {
		key := fmt.Sprintf("C33:rule:%s-tx:%s-pp:%s:valid=%v:%s:want-%s:%s:acct=%s", era, ppKind, pvBand(pv), isValid, kind, want.Kind, d, c33Classes(wds))
		report(key, fmt.Sprintf("conway.UtxoValidateWithdrawals on a %s transaction with %s parameters at PV%d (IsValid=%v, state %s): want %s (%s), got %s %s",
			era, ppKind, pv, isValid, kind, want.Kind, want.Why, gotRule.Class, gotRule.Err), caseObj("rule", gotRule))
	}
	// full rule list: Conway list needs Conway parameters; the Dijkstra list
	// accepts both parameter types
	if era == Conway && ppKind != "conway" {
		return
	}
	for _, w := range wds {
		if w.Synthetic {
			// no key hashes to a synthetic credential, so the transaction cannot carry
			// the vkey witness the whole list demands: only the rule is judged
			rec.Class(where + ":full_skipped_unsignable_account")
			return
		}
	}
	full := pur.twice("VerifyTransaction", func() error { return common.VerifyTransaction(dtx, c.Slot, ls, pp, rulesFor(era)) })
	gotFull := c33Classify(full)
	rec.Eval()
	rec.Class(fmt.Sprintf("%s:full_%s", where, gotFull.Class))
	if gotFull.Class == "other" {
		// another rule rejected first: the transaction is not phase-1-valid
		// under these parameters; nothing can be concluded from the list
		rec.Class(fmt.Sprintf("%s:full_other:%s", where, errClass(full)))
		return
	}
	if want.Kind == c33Unspecified {
		return
	}
	if d := c33Judge(want, gotFull); d != "" {
		key := fmt.Sprintf("C33:full:%s-rules:%s-pp:%s:valid=%v:%s:want-%s:%s:acct=%s", era, ppKind, pvBand(pv), isValid, kind, want.Kind, d, c33Classes(wds))
		report(key, fmt.Sprintf("VerifyTransaction(%s rule list) with %s parameters at PV%d (IsValid=%v, state %s): want %s (%s), got %s %s",
			era, ppKind, pv, isValid, kind, want.Kind, want.Why, gotFull.Class, gotFull.Err), caseObj("full", gotFull))
	}
}

func TestC33(t *testing.T) {
	rec := evi.New(t, "C33", evi.Exploration,
		"grid (x 2 networks x 5 reward-account credential hashes: a real key, all-zero, all-0xff, 0..01, 01..0): tx era {conway,dijkstra} x parameter type {conway,dijkstra} x PV 0..20 x amount {0,7} x state {delegated,undelegated,no-capability} x IsValid {true,false}, one key-hash withdrawal from a registered account, harness-built signed transactions decoded by the library; each point through conway.UtxoValidateWithdrawals and (where the parameter type fits) the era's full UtxoValidationRules via VerifyTransaction; oracle = reference table on result and error type. rapid part: generated valid transactions (certs, mint, proposals, several withdrawals incl. zero amounts, script-hash and unregistered accounts, accounts whose hash is a pool/DRep id, accounts with special or random credential bytes) at PV 0..20; accessor oracle: Address.StakeCredential() of every decoded withdrawal address and of every Shelley address form x network x special hash returns exactly the credential bytes/type the harness encoded, and none for pointer/enterprise addresses. purity: every rule / rule-list call is made twice on the same objects (same verdict and error types demanded), the decoded transaction's observable state (bytes, hash, fee, inputs, outputs, withdrawals, witnesses, ...), the parameter objects and the mock ledger state must be unchanged afterwards, and verdicts on objects that validated another transaction before must equal those on fresh objects. non-trivial = at least one key-hash withdrawal from a registered account; distinct by (era, pp type, pv, IsValid, state, withdrawal set, tx hash)")
	defer rec.Finish()
	rec.Assume("ed25519/blake2b from x/crypto are trusted; the library's era decoders are trusted to report the withdrawals the harness encoded (checked: decoded withdrawal count equals the encoded count)",
		"a ledger state 'that cannot answer the delegation query' is one that does not implement common.DRepDelegationState",
		"for Dijkstra, IsValid=false is applied the way the block decoder applies it (TxIsValid=false on the decoded transaction)")

	// ---- exhaustive grid ------------------------------------------------------
	// The stated grid, once per reward-account credential of a fixed list: a real
	// key hash and the special bit patterns (all-zero, all-0xff, ...), on both networks.
	points := 0
	accounts := append([]c33Wd{{Key: 4}}, c33Special...)
	violation := func(key, what string, cs any) { rec.Violation(key, what, cs) }
	for _, era := range []Era{Conway, Dijkstra} {
		for _, net := range []uint8{0, 1} {
			for _, acct := range accounts {
				for _, invalid := range []bool{false, true} {
					for _, amount := range []uint64{0, 7} {
						p := defaultParams(era)
						tx := &TxSpec{Era: era, Net: net}
						tx.Ins = []In{{TxID: hash256([]byte("c33/in")), Ix: 0, Key: 0, V: Val{Coin: 100_000_000}}}
						if acct.Synthetic {
							tx.WdrlRaw = []WdRaw{{Hash: acct.Hash, Amount: amount}}
						} else {
							tx.Wdrl = []Wd{{Key: acct.Key, Amount: amount}}
						}
						tx.Fee = 400_000
						tx.Outs = []Out{{Addr: payAddr(net, 1), V: Val{Coin: 100_000_000 + amount - tx.Fee}}}
						if invalid {
							c33Phase2(tx, p, In{TxID: hash256([]byte("c33/coll")), Ix: 1, Key: 2, V: Val{Coin: 5_000_000}})
						}
						ss := newStSpec()
						c := &Case{Tx: tx, P: p, SS: ss, Slot: 10}
						dtx, raw, err := c33Decode(tx, invalid)
						if err != nil {
							t.Fatalf("grid tx %s invalid=%v: %v", era, invalid, err)
						}
						if len(dtx.Withdrawals()) != 1 {
							t.Fatalf("decoded withdrawals: %d", len(dtx.Withdrawals()))
						}
						w := acct
						w.Amount, w.Registered = amount, true
						c33WithdrawalAccessors(rec, "grid", dtx, net, []c33Wd{w}, violation)
						pur := newPurity(rec, "C33", era.String(), dtx, violation)
						for _, ppKind := range []string{"conway", "dijkstra"} {
							for pv := uint(0); pv <= 20; pv++ {
								for _, kind := range []c33StateKind{c33Delegated, c33Undelegated, c33NoCap} {
									w.Delegated = kind == c33Delegated
									c33Eval(rec, "grid", c, dtx, raw, []c33Wd{w}, pv, ppKind, !invalid, kind, kind != c33NoCap,
										pur, pv >= 9 && pv <= 12, violation)
									points++
								}
							}
						}
						pur.done()
					}
				}
			}
		}
	}
	rec.SetExtra("grid_points", points)
	rec.SetExtra("grid", "[2 tx eras x 2 parameter types x 21 PVs x 2 amounts x 3 states x 2 IsValid = 1008 points] x 2 networks x 5 credential hashes (real key, all-zero, all-0xff, 0..01, 01..0) = 10080 points, all enumerated; the whole rule list runs where the account can sign (real key)")
	rec.SetExhaustive(true)

	// ---- accessor sweep: every Shelley address form x network x special hashes ----
	for _, typ := range c33AddrTypes {
		for _, net := range []uint8{0, 1} {
			for _, acct := range accounts {
				for _, pay := range [][28]byte{keys[0].hash, {}} {
					c33CheckAddr(rec, "sweep", typ, net, pay, acct.hash(), acct.class(), []byte{0x81, 0x00, 0x02, 0x03}, violation)
				}
			}
		}
	}

	// ---- generated noise -------------------------------------------------------
	rec.Check(func(rt *rapid.T) {
		era := []Era{Conway, Dijkstra}[rapid.IntRange(0, 1).Draw(rt, "era")]
		invalid := rapid.IntRange(0, 3).Draw(rt, "invalid") == 0
		var wds []c33Wd
		o := genOpts{MaxCerts: 2, NoWdrl: true, FewAssets: true}
		o.BeforeCoins = func(rt *rapid.T, c *Case) {
			tx := c.Tx
			touched := map[int]bool{}
			for _, ct := range tx.Certs {
				touched[ct.Key] = true
			}
			for _, k := range stakeKeys {
				// a certificate on the same credential would change (or depend on)
				// its registration inside this transaction: keep them apart
				if touched[k] || rapid.IntRange(0, 2).Draw(rt, "wdKey") == 0 {
					continue
				}
				w := c33Wd{Key: k, Registered: true}
				switch rapid.IntRange(0, 3).Draw(rt, "wdAmt") {
				case 0:
					w.Amount = 0
				case 1:
					w.Amount = 1
				default:
					w.Amount = rapid.Uint64Range(1, 2_000_000_000).Draw(rt, "wdAmount")
				}
				w.Delegated = rapid.Bool().Draw(rt, "wdDeleg")
				if rapid.IntRange(0, 39).Draw(rt, "wdUnreg") == 0 {
					w.Registered = false
				}
				wds = append(wds, w)
				tx.Wdrl = append(tx.Wdrl, Wd{Key: k, Amount: w.Amount})
			}
			// a reward account whose key hash equals a pool / DRep id that may be used
			// elsewhere in the transaction (the harness owns the key, so it can sign)
			if rapid.IntRange(0, 3).Draw(rt, "wdIdKey") == 0 {
				ids := append(append([]int(nil), poolKeys...), drepKeys...)
				k := ids[rapid.IntRange(0, len(ids)-1).Draw(rt, "wdIdKeyWhich")]
				class := "pool-id"
				if k >= drepKeys[0] {
					class = "drep-id"
				}
				w := c33Wd{Key: k, Registered: true, Class: class, Amount: rapid.Uint64Range(0, 5).Draw(rt, "wdIdAmt"),
					Delegated: rapid.Bool().Draw(rt, "wdIdDeleg")}
				wds = append(wds, w)
				tx.Wdrl = append(tx.Wdrl, Wd{Key: k, Amount: w.Amount})
			}
			// accounts with special / random credential bytes (cannot sign: rule only)
			if rapid.IntRange(0, 2).Draw(rt, "wdSynthetic") == 0 {
				n := rapid.IntRange(1, 2).Draw(rt, "nSynthetic")
				seen := map[string]bool{}
				for i := 0; i < n; i++ {
					var w c33Wd
					if j := rapid.IntRange(0, len(c33Special)+1).Draw(rt, "synWhich"); j < len(c33Special) {
						w = c33Special[j]
					} else {
						w = c33Wd{Synthetic: true, Class: "random"}
						copy(w.Hash[:], rapid.SliceOfN(rapid.Byte(), 28, 28).Draw(rt, "synHash"))
						w.HashHex = fmt.Sprintf("%x", w.Hash[:])
					}
					w.Script = rapid.IntRange(0, 5).Draw(rt, "synScript") == 0
					// the mock state is keyed by the 28 bytes alone: one account per hash
					id := w.HashHex
					if seen[id] {
						continue
					}
					seen[id] = true
					w.Registered = rapid.IntRange(0, 39).Draw(rt, "synUnreg") != 0
					w.Delegated = rapid.Bool().Draw(rt, "synDeleg")
					w.Amount = rapid.Uint64Range(0, 3).Draw(rt, "synAmt")
					wds = append(wds, w)
					tx.WdrlRaw = append(tx.WdrlRaw, WdRaw{Hash: w.Hash, Script: w.Script, Amount: w.Amount})
				}
			}
			// a native-script reward account (outside the statement)
			if rapid.IntRange(0, 4).Draw(rt, "wdScript") == 0 {
				k := payKeys[rapid.IntRange(0, 3).Draw(rt, "wdScriptKey")]
				w := c33Wd{Key: k, Script: true, Registered: true, Amount: rapid.Uint64Range(0, 3).Draw(rt, "wdScriptAmt"),
					Delegated: rapid.Bool().Draw(rt, "wdScriptDeleg")}
				wds = append(wds, w)
				tx.WdrlScript = append(tx.WdrlScript, Wd{Key: k, Amount: w.Amount})
			}
			if invalid {
				c33Phase2(tx, c.P, In{TxID: hash256([]byte("c33/coll")), Ix: uint32(rapid.IntRange(0, 3).Draw(rt, "collIx")),
					Key: payKeys[rapid.IntRange(0, 3).Draw(rt, "collKey")], V: Val{Coin: rapid.Uint64Range(50_000_000, 90_000_000).Draw(rt, "collCoin")}})
				tx.Invalid = era == Conway
			}
		}
		c := genCase(rt, era, o)
		// withdrawals were appended after genCase computed the consumed side for
		// the asset distribution only; coins are settled afterwards, so the
		// transaction is balanced. Certificates that touch a withdrawing key would
		// change its registration inside the transaction: drop them.
		pv := uint(rapid.IntRange(0, 20).Draw(rt, "pv"))
		if rapid.Bool().Draw(rt, "pvNear") {
			pv = uint(rapid.IntRange(9, 12).Draw(rt, "pvBand"))
		}
		kind := c33PerAccount
		if rapid.IntRange(0, 2).Draw(rt, "noCap") == 0 {
			kind = c33NoCap
		}
		ppKind := "conway"
		if era == Dijkstra || rapid.Bool().Draw(rt, "ppDijkstra") {
			if rapid.IntRange(0, 3).Draw(rt, "ppKindD") != 0 {
				ppKind = "dijkstra"
			}
		}
		dtx, raw, err := c33Decode(c.Tx, invalid)
		if err != nil {
			rec.Class("noise:decode_rejected:" + errClass(err))
			return
		}
		if got := len(dtx.Withdrawals()); got != len(wds) {
			rt.Fatalf("harness: encoded %d withdrawals, decoder reports %d", len(wds), got)
		}
		if len(wds) == 0 {
			rec.Class("noise:no_withdrawals")
		}
		failRT := func(key, what string, cs any) { rec.Fail(rt, key, what, cs) }
		c33WithdrawalAccessors(rec, "noise", dtx, c.Tx.Net, wds, failRT)
		{ // accessor oracle on one drawn address of any Shelley form
			var pay, stake [28]byte
			class := "random"
			if j := rapid.IntRange(0, len(c33Special)+2).Draw(rt, "addrStake"); j < len(c33Special) {
				stake, class = c33Special[j].Hash, c33Special[j].Class
			} else if j == len(c33Special) {
				stake, class = keys[rapid.IntRange(0, nKeys-1).Draw(rt, "addrStakeKey")].hash, "real-key"
			} else {
				copy(stake[:], rapid.SliceOfN(rapid.Byte(), 28, 28).Draw(rt, "addrStakeBytes"))
			}
			copy(pay[:], rapid.SliceOfN(rapid.Byte(), 28, 28).Draw(rt, "addrPayBytes"))
			ptr := []byte{byte(rapid.IntRange(0, 127).Draw(rt, "ptrSlot")), byte(rapid.IntRange(0, 127).Draw(rt, "ptrTx")), byte(rapid.IntRange(0, 127).Draw(rt, "ptrCert"))}
			typ := c33AddrTypes[rapid.IntRange(0, len(c33AddrTypes)-1).Draw(rt, "addrType")]
			c33CheckAddr(rec, "noise", typ, uint8(rapid.IntRange(0, 1).Draw(rt, "addrNet")), pay, stake, class, ptr, failRT)
		}
		rec.Class(fmt.Sprintf("noise:%s:%s:valid=%v:%s", era, pvBand(pv), !invalid, kind))
		pur := newPurity(rec, "C33", era.String(), dtx, failRT)
		c33Eval(rec, "noise", c, dtx, raw, wds, pv, ppKind, !invalid, kind, kind != c33NoCap, pur, true, failRT)
		pur.done()
	})
}
