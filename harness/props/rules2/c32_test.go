package rules2

// C32 -- collateral covers the fee share the protocol demands.
//
// Reference (Alonzo UTXO rule feesOK / Babbage collateral balance): for a
// transaction with redeemers
//
//	(1) at least one collateral input,
//	(2) balance*100 >= fee*collateralPercentage, exact, where
//	    balance = sum(collateral input coin) - collateral return coin (Babbage+),
//	(3) the collateral is ada-only, unless the collateral return (Babbage+)
//	    carries exactly the tokens of the collateral inputs,
//	(4) number of collateral inputs <= maxCollateralInputs.
//
// The statement is "validation requires": the oracle is one-directional --
// whenever the library accepts (a single rule, or the era's whole rule list),
// the corresponding reference condition(s) must hold. Over-rejection is counted.

import (
	"fmt"
	"math/big"
	"strings"
	"testing"

	"github.com/blinklabs-io/gouroboros/ledger"
	"github.com/blinklabs-io/gouroboros/ledger/alonzo"
	"github.com/blinklabs-io/gouroboros/ledger/babbage"
	"github.com/blinklabs-io/gouroboros/ledger/common"
	"github.com/blinklabs-io/gouroboros/ledger/conway"
	"github.com/blinklabs-io/gouroboros/ledger/dijkstra"
	"pgregory.net/rapid"

	"verif/harness/internal/evi"
)

type c32RuleSet struct {
	insufficient, nonAda, noColl, tooMany common.UtxoValidationRuleFunc
}

func c32Rules(era Era) c32RuleSet {
	switch era {
	case Alonzo:
		return c32RuleSet{alonzo.UtxoValidateInsufficientCollateral, alonzo.UtxoValidateCollateralContainsNonAda,
			alonzo.UtxoValidateNoCollateralInputs, nil} // Alonzo exports no too-many-collateral-inputs rule
	case Babbage:
		return c32RuleSet{babbage.UtxoValidateInsufficientCollateral, babbage.UtxoValidateCollateralContainsNonAda,
			babbage.UtxoValidateNoCollateralInputs, babbage.UtxoValidateTooManyCollateralInputs}
	case Conway:
		return c32RuleSet{conway.UtxoValidateInsufficientCollateral, conway.UtxoValidateCollateralContainsNonAda,
			conway.UtxoValidateNoCollateralInputs, conway.UtxoValidateTooManyCollateralInputs}
	case Dijkstra:
		return c32RuleSet{dijkstra.UtxoValidateInsufficientCollateral, dijkstra.UtxoValidateCollateralContainsNonAda,
			dijkstra.UtxoValidateNoCollateralInputs, dijkstra.UtxoValidateTooManyCollateralInputs}
	}
	panic("era")
}

// c32Verdict is the reference model's judgement of the four conditions.
type c32Verdict struct {
	HasRedeemers bool
	NColl        int
	SumIn        *big.Int // sum of collateral input coin
	Ret          *big.Int // collateral return coin (0 when absent)
	Bal          *big.Int // SumIn - Ret
	Need         *big.Int // fee*pct
	HasColl      bool     // (1)
	Sufficient   bool     // (2)  Bal*100 >= fee*pct
	AdaOnly      bool     // (3)
	NonAdaNote   string   // "ada-only" | "tokens-returned" | "tokens-not-returned" | "tokens-partly-returned" | "return-has-extra-tokens"
	NonAdaJudged bool     // false when the statement does not decide (return carries tokens the inputs do not have)
	CountOK      bool     // (4)
}

func c32Ref(tx *TxSpec, p Params) c32Verdict {
	v := c32Verdict{HasRedeemers: len(tx.Rdms) > 0, NColl: len(tx.Coll), SumIn: new(big.Int), Ret: new(big.Int)}
	in := map[AssetID]*big.Int{}
	for _, c := range tx.Coll {
		v.SumIn.Add(v.SumIn, new(big.Int).SetUint64(c.V.Coin))
		for _, a := range c.V.Assets {
			if in[a.ID] == nil {
				in[a.ID] = new(big.Int)
			}
			in[a.ID].Add(in[a.ID], a.Q)
		}
	}
	ret := map[AssetID]*big.Int{}
	if tx.CollRet != nil && tx.Era >= Babbage {
		v.Ret.SetUint64(tx.CollRet.V.Coin)
		for _, a := range tx.CollRet.V.Assets {
			if ret[a.ID] == nil {
				ret[a.ID] = new(big.Int)
			}
			ret[a.ID].Add(ret[a.ID], a.Q)
		}
	}
	v.Bal = new(big.Int).Sub(v.SumIn, v.Ret)
	v.Need = new(big.Int).Mul(new(big.Int).SetUint64(tx.Fee), new(big.Int).SetUint64(uint64(p.CollPct)))
	v.HasColl = v.NColl >= 1
	v.Sufficient = new(big.Int).Mul(v.Bal, big.NewInt(100)).Cmp(v.Need) >= 0
	v.CountOK = uint(v.NColl) <= p.MaxColl
	// (3)
	v.NonAdaJudged = true
	missing, extra := false, false
	for id, q := range in {
		if q.Sign() == 0 {
			continue
		}
		r := ret[id]
		switch {
		case r == nil || r.Cmp(q) < 0:
			missing = true
		case r.Cmp(q) > 0:
			extra = true
		}
	}
	for id, r := range ret {
		if r.Sign() != 0 && (in[id] == nil || in[id].Sign() == 0) {
			extra = true
		}
	}
	hasTokens := false
	for _, q := range in {
		hasTokens = hasTokens || q.Sign() != 0
	}
	switch {
	case missing:
		v.AdaOnly = false
		v.NonAdaNote = "tokens-not-returned"
		if len(ret) > 0 {
			v.NonAdaNote = "tokens-partly-returned"
		}
	case extra:
		// the net collateral has a negative token part; the statement only
		// speaks about the non-ada part of the collateral being returned
		v.AdaOnly = true
		v.NonAdaJudged = false
		v.NonAdaNote = "return-has-extra-tokens"
	case hasTokens:
		v.AdaOnly = true
		v.NonAdaNote = "tokens-returned"
	default:
		v.AdaOnly = true
		v.NonAdaNote = "ada-only"
	}
	return v
}

// c32InsufficientCause explains an acceptance of an insufficient balance.
func c32InsufficientCause(v c32Verdict) string {
	floor := new(big.Int).Div(v.Need, big.NewInt(100)) // the library's fee*pct/100
	sumOK := new(big.Int).Mul(v.SumIn, big.NewInt(100)).Cmp(v.Need) >= 0
	switch {
	case v.Bal.Cmp(floor) >= 0:
		return "rounding" // floor(fee*pct/100) <= balance < fee*pct/100
	case sumOK:
		return "collateral-return-not-subtracted"
	case v.SumIn.Cmp(floor) >= 0:
		return "rounding+collateral-return-not-subtracted"
	}
	return "unexplained"
}

type c32Case struct {
	C       *Case
	Invalid bool
}

func c32Decode(c *Case, invalid bool) (ledger.Transaction, []byte, error) {
	return c33Decode(c.Tx, invalid)
}

func c32Sample(c *Case, v c32Verdict, raw []byte, invalid bool) map[string]any {
	var colls []string
	for _, in := range c.Tx.Coll {
		s := fmt.Sprintf("%d", in.V.Coin)
		for _, a := range in.V.Assets {
			s += fmt.Sprintf("+%s:%s", a.ID, a.Q)
		}
		colls = append(colls, s)
	}
	m := map[string]any{"era": c.Tx.Era.String(), "fee": c.Tx.Fee, "collateral_pct": c.P.CollPct, "max_collateral_inputs": c.P.MaxColl,
		"collateral_inputs": colls, "sum_in": v.SumIn.String(), "return_coin": v.Ret.String(), "balance": v.Bal.String(),
		"fee_x_pct": v.Need.String(), "ref_sufficient": v.Sufficient, "ref_nonada": v.NonAdaNote, "ref_count_ok": v.CountOK,
		"is_valid": !invalid, "redeemers": len(c.Tx.Rdms), "tx_cbor": evi.Hex(raw)}
	if c.Tx.CollRet != nil {
		var as []string
		for _, a := range c.Tx.CollRet.V.Assets {
			as = append(as, fmt.Sprintf("%s:%s", a.ID, a.Q))
		}
		m["return_assets"] = as
	}
	if c.Tx.TotalColl != nil {
		m["total_collateral"] = *c.Tx.TotalColl
	}
	return m
}

var c32Tokens = []AssetID{
	{Policy: foreignPolicy(0), Name: "tok"},
	{Policy: foreignPolicy(0), Name: "a"},
	{Policy: foreignPolicy(1), Name: ""},
}

// c32Gen draws a transaction that is valid for every other rule, with
// redeemers (mostly), and a collateral configuration around the thresholds.
func c32Gen(rt *rapid.T, era Era) (*Case, bool) {
	rec32Class = ""
	invalid := rapid.IntRange(0, 4).Draw(rt, "isValidTrue") != 0 // IsValid=false lets the whole rule list pass without running Plutus
	noRedeemers := rapid.IntRange(0, 19).Draw(rt, "noRedeemers") == 0
	if noRedeemers {
		invalid = false
	}
	var nColl int
	var retCoin uint64
	hasRet := false
	o := genOpts{MaxCerts: 1, FewAssets: true, NoProps: true}
	o.BeforeCoins = func(rt *rapid.T, c *Case) {
		tx, p := c.Tx, &c.P
		p.MaxColl = uint(rapid.IntRange(0, 4).Draw(rt, "maxColl"))
		switch rapid.IntRange(0, 5).Draw(rt, "nCollClass") {
		case 0:
			nColl = 0
		case 1:
			nColl = int(p.MaxColl)
		case 2:
			nColl = int(p.MaxColl) + 1
		case 3:
			nColl = int(p.MaxColl) + rapid.IntRange(1, 3).Draw(rt, "nCollOver")
		default:
			nColl = rapid.IntRange(1, max(1, int(p.MaxColl))).Draw(rt, "nColl")
		}
		for i := 0; i < nColl; i++ {
			tx.Coll = append(tx.Coll, In{TxID: hash256([]byte("c32/coll")), Ix: uint32(i),
				Key: payKeys[rapid.IntRange(0, 3).Draw(rt, "collKey")]})
		}
		if nColl > 1 && rapid.IntRange(0, 2).Draw(rt, "collUnsorted") == 0 {
			// collateral (and inputs) encoded in non-canonical order: an in-place
			// re-ordering by a rule would be observable
			tx.KeepOrder = true
			for i, j := 0, len(tx.Coll)-1; i < j; i, j = i+1, j-1 {
				tx.Coll[i], tx.Coll[j] = tx.Coll[j], tx.Coll[i]
			}
		}
		if !noRedeemers {
			lang := 1
			switch {
			case era >= Conway:
				lang = 3 // V1/V2 scripts forbid Conway-only body fields
			case era == Babbage:
				lang = rapid.IntRange(1, 2).Draw(rt, "lang")
			}
			tx.Rdms = []Rdm{{Tag: 0, Index: 0, Mem: uint64(rapid.IntRange(0, 10_000).Draw(rt, "mem")), Steps: uint64(rapid.IntRange(0, 10_000).Draw(rt, "steps"))}}
			if rapid.IntRange(0, 3).Draw(rt, "twoRdm") == 0 && len(tx.Ins) > 1 {
				tx.Rdms = append(tx.Rdms, Rdm{Tag: 0, Index: 1, Mem: 5, Steps: 5})
			}
			tx.RdmMap = era == Dijkstra || (era == Conway && rapid.Bool().Draw(rt, "rdmMap"))
			tx.Plutus = []PScript{{Lang: lang, Bytes: []byte{0x45, 1, 1, 0, 0x24, 0x99}}}
			tx.CostModels = p.CostModels
		}
		tx.Invalid = invalid && era != Dijkstra
		if era >= Babbage && nColl > 0 && rapid.IntRange(0, 2).Draw(rt, "hasRet") != 0 {
			hasRet = true
			ret := Out{Addr: payAddr(tx.Net, payKeys[rapid.IntRange(0, 3).Draw(rt, "retKey")]), MapForm: rapid.Bool().Draw(rt, "retMap")}
			// placeholder tokens so that the size (fee) is an upper bound; the
			// real token choice happens after the fee is known
			ret.V.Coin = 1 << 40
			for _, id := range c32Tokens {
				ret.V.Assets = append(ret.V.Assets, AQ{id, new(big.Int).SetUint64(1 << 62)})
			}
			tx.CollRet = &ret
			if rapid.Bool().Draw(rt, "totalColl") {
				tx.TotalColl = u64p(1 << 40)
			}
		}
	}
	c := genCase(rt, era, o)
	tx, p := c.Tx, &c.P

	// ---- parameters and amounts, now that the fee is fixed ---------------------
	switch rapid.IntRange(0, 7).Draw(rt, "pctClass") {
	case 0:
		p.CollPct = 150
	case 1:
		p.CollPct = 100
	case 2:
		p.CollPct = []uint{0, 1, 2, 65535}[rapid.IntRange(0, 3).Draw(rt, "pctTiny")]
	case 3:
		p.CollPct = uint(rapid.IntRange(101, 199).Draw(rt, "pctOdd"))
	default:
		p.CollPct = uint(rapid.IntRange(1, 1000).Draw(rt, "pct"))
	}
	need := new(big.Int).Mul(new(big.Int).SetUint64(tx.Fee), new(big.Int).SetUint64(uint64(p.CollPct)))
	floor := new(big.Int).Div(need, big.NewInt(100))
	ceil := new(big.Int).Add(need, big.NewInt(99))
	ceil.Div(ceil, big.NewInt(100))
	// tokens on the collateral inputs / the return
	tokenMode := "none"
	if nColl > 0 && rapid.IntRange(0, 2).Draw(rt, "tokens") == 0 {
		tokenMode = []string{"returned", "returned", "not-returned", "partly-returned", "extra-in-return"}[rapid.IntRange(0, 4).Draw(rt, "tokenMode")]
		if !hasRet {
			tokenMode = "not-returned"
		}
	}
	var retAssets []AQ
	if tokenMode != "none" {
		sum := map[AssetID]*big.Int{}
		var order []AssetID
		nTok := rapid.IntRange(1, 3).Draw(rt, "nTok")
		for j := 0; j < nTok; j++ {
			id := c32Tokens[rapid.IntRange(0, len(c32Tokens)-1).Draw(rt, "tokId")]
			ci := rapid.IntRange(0, nColl-1).Draw(rt, "tokColl")
			q := new(big.Int).SetUint64(rapid.Uint64Range(1, 1_000_000).Draw(rt, "tokQty"))
			dup := false
			for _, a := range tx.Coll[ci].V.Assets {
				dup = dup || a.ID == id
			}
			if dup {
				continue
			}
			tx.Coll[ci].V.Assets = append(tx.Coll[ci].V.Assets, AQ{id, q})
			if sum[id] == nil {
				sum[id] = new(big.Int)
				order = append(order, id)
			}
			sum[id].Add(sum[id], q)
		}
		switch tokenMode {
		case "returned":
			for _, id := range order {
				retAssets = append(retAssets, AQ{id, new(big.Int).Set(sum[id])})
			}
		case "partly-returned":
			for i, id := range order {
				q := new(big.Int).Set(sum[id])
				if i == 0 {
					if q.Cmp(big.NewInt(1)) == 0 {
						continue // drop the asset entirely
					}
					q.Sub(q, big.NewInt(1))
				}
				retAssets = append(retAssets, AQ{id, q})
			}
		case "extra-in-return":
			for i, id := range order {
				q := new(big.Int).Set(sum[id])
				if i == 0 {
					q.Add(q, big.NewInt(1))
				}
				retAssets = append(retAssets, AQ{id, q})
			}
		}
	}
	if hasRet {
		tx.CollRet.V.Assets = retAssets
		// the return must itself be a valid output: give it enough coin
		minCoin := outMinCoin(era, *p, *tx.CollRet) + p.MinUtxo
		retCoin = minCoin + rapid.Uint64Range(0, 2_000_000).Draw(rt, "retExtra")
		tx.CollRet.V.Coin = retCoin
	}
	// target balance around the exact threshold
	var bal *big.Int
	switch rapid.IntRange(0, 9).Draw(rt, "balClass") {
	case 0:
		bal = new(big.Int).Set(floor) // == ceil when divisible; else one below the exact need
	case 1:
		bal = new(big.Int).Set(ceil)
	case 2:
		bal = new(big.Int).Sub(floor, big.NewInt(1))
	case 3:
		bal = new(big.Int).Add(ceil, big.NewInt(1))
	case 4:
		// the inputs alone would suffice, the balance after the return does not
		bal = new(big.Int).Sub(ceil, new(big.Int).SetUint64(rapid.Uint64Range(1, retCoin+1).Draw(rt, "balShort")))
	case 5:
		bal = new(big.Int).SetUint64(rapid.Uint64Range(0, 3).Draw(rt, "balTiny"))
	default:
		bal = new(big.Int).Add(ceil, new(big.Int).SetUint64(rapid.Uint64Range(0, 5_000_000).Draw(rt, "balOver")))
	}
	if bal.Sign() < 0 {
		bal.SetInt64(0)
	}
	sumIn := new(big.Int).Add(bal, new(big.Int).SetUint64(retCoin))
	if !sumIn.IsUint64() {
		sumIn.SetUint64(^uint64(0) >> 1)
	}
	// the return drawn RELATIVE to the collateral inputs, over the whole range:
	// the inputs alone cover the threshold, the return takes away nothing / just
	// too much / everything / more than there is (negative balance)
	if hasRet && ceil.IsUint64() && ceil.Uint64() < 1<<62 && rapid.IntRange(0, 2).Draw(rt, "retRelative") == 0 {
		thr := ceil.Uint64()
		in := thr + rapid.Uint64Range(0, 5_000_000).Draw(rt, "retRelInputs")
		retCoin = c32ReturnCandidates(in, thr)[rapid.IntRange(0, 10).Draw(rt, "retRelWhich")]
		tx.CollRet.V.Coin = retCoin
		sumIn.SetUint64(in)
		rec32Class = fmt.Sprintf("return_vs_inputs:%s", map[int]string{-1: "below", 0: "equal", 1: "above"}[cmpU(retCoin, in)])
	}
	if nColl > 0 {
		rest := sumIn.Uint64()
		for i := 0; i < nColl-1; i++ {
			part := rapid.Uint64Range(0, rest).Draw(rt, "collPart")
			if rapid.Bool().Draw(rt, "collPartSmall") {
				part = min(part, rest/uint64(nColl))
			}
			tx.Coll[i].V.Coin = part
			rest -= part
		}
		tx.Coll[nColl-1].V.Coin = rest
	}
	if tx.TotalColl != nil {
		b := new(big.Int).Sub(sumIn, new(big.Int).SetUint64(retCoin))
		if nColl == 0 {
			b.SetInt64(0)
		}
		if b.Sign() < 0 {
			// a negative balance cannot be declared: whatever is declared is inconsistent
			b.SetUint64(rapid.Uint64Range(0, 2).Draw(rt, "totalCollOfNegative"))
		}
		tx.TotalColl = u64p(b.Uint64())
		if rapid.IntRange(0, 9).Draw(rt, "totalCollWrong") == 0 {
			tx.TotalColl = u64p(b.Uint64() + 1)
		}
	}
	return c, invalid
}

func TestC32(t *testing.T) {
	rec := evi.New(t, "C32", evi.Exploration,
		"harness-built, signed, balanced Alonzo/Babbage/Conway/Dijkstra transactions with redeemers + Plutus witness + script data hash (IsValid=false in 4 of 5 cases so that the whole rule list can pass without executing Plutus), decoded by the library; collateral: 0..max+3 inputs, percentage {0..2, 100, 150, 101..199, 1..1000}, balance in {floor(fee*pct/100), ceil, floor-1, ceil+1, inputs-suffice-but-balance-after-return-does-not, tiny, ample}, collateral return relative to the inputs {0, 1, inputs-threshold-1..+1, inputs-1, inputs, inputs+1, 2*inputs, 2^63, 2^64-1} (signed balance, may be negative) with / without a consistent / inconsistent total_collateral, tokens on collateral {none, returned exactly, not returned, partly returned, extra in return}; each case through the era's four single collateral rules and the full UtxoValidationRules (VerifyTransaction); oracle (one-directional): library accepts => reference conditions hold. non-trivial = has redeemers and the full list or the insufficient-collateral rule was evaluated with >=1 collateral input; distinct by (era, fee, pct, collateral coins/tokens, return, max, n)")
	defer rec.Finish()
	rec.Assume("x/crypto ed25519+blake2b trusted; UTxO entries of collateral inputs are decoded by the library's output decoders from harness-encoded bytes",
		"'runs scripts' = the witness set has at least one redeemer (Alonzo feesOK); for Dijkstra IsValid=false is applied on the decoded transaction the way the block decoder applies it",
		"collateral balance = sum of collateral input coin minus the collateral return coin (Babbage collAdaBalance)")

	// ---- deterministic boundary cases (also the minimal reproductions) ----------
	for _, era := range []Era{Alonzo, Babbage, Conway, Dijkstra} {
		for _, sc := range c32Scenarios(era) {
			c32Evaluate(rec, sc, true, func(key, what string, cs any) { rec.Violation(key, what, cs) })
		}
	}

	rec.Check(func(rt *rapid.T) {
		era := []Era{Alonzo, Babbage, Conway, Dijkstra}[rapid.IntRange(0, 3).Draw(rt, "era")]
		c, invalid := c32Gen(rt, era)
		if rec32Class != "" {
			rec.Class(rec32Class)
		}
		c32Evaluate(rec, c, invalid, func(key, what string, cs any) { rec.Fail(rt, key, what, cs) })
	})
}

// c32Scenarios: hand-built phase-2-invalid transactions (fee 300001, one input
// of 100 ada, one output) with collateral exactly at the interesting points.
func c32Scenarios(era Era) []*Case {
	fee := uint64(300_001)
	mk := func(pct, max uint, coll []uint64, ret uint64, tokens bool) *Case {
		p := defaultParams(era)
		p.CollPct, p.MaxColl = pct, max
		tx := &TxSpec{Era: era, Net: 0, Fee: fee}
		// the fee is paid by an input of exactly that size next to a 100-ada input
		tx.Ins = []In{{TxID: hash256([]byte("c32/in")), Ix: 0, Key: 0, V: Val{Coin: 100_000_000}},
			{TxID: hash256([]byte("c32/in")), Ix: 1, Key: 0, V: Val{Coin: fee}}}
		tx.Outs = []Out{{Addr: payAddr(0, 1), V: Val{Coin: 100_000_000}}}
		lang := 1
		if era >= Conway {
			lang = 3
		}
		tx.Rdms = []Rdm{{Tag: 0, Index: 0, Mem: 1000, Steps: 1000}}
		tx.RdmMap = era >= Conway
		tx.Plutus = []PScript{{Lang: lang, Bytes: []byte{0x45, 1, 1, 0, 0x24, 0x99}}}
		tx.CostModels = p.CostModels
		tx.Invalid = era != Dijkstra
		for i, v := range coll {
			in := In{TxID: hash256([]byte("c32/coll")), Ix: uint32(i), Key: 2, V: Val{Coin: v}}
			if tokens && i == 0 {
				in.V.Assets = []AQ{{c32Tokens[0], big.NewInt(5)}}
			}
			tx.Coll = append(tx.Coll, in)
		}
		if ret > 0 && era >= Babbage {
			tx.CollRet = &Out{Addr: payAddr(0, 2), V: Val{Coin: ret}}
		}
		return &Case{Tx: tx, P: p, SS: newStSpec(), Slot: 10}
	}
	// fee*150 = 45000150: floor/100 = 450001, exact need 450001.5
	out := []*Case{
		mk(150, 3, []uint64{450_001}, 0, false),                   // balance = floor(fee*pct/100): 1.5 lovelace short... accepted?
		mk(150, 3, []uint64{450_002}, 0, false),                   // ceil: sufficient
		mk(150, 3, []uint64{450_000}, 0, false),                   // below the floor
		mk(150, 3, []uint64{200_000, 250_002}, 0, false),          // two inputs, sufficient
		mk(150, 3, nil, 0, false),                                 // no collateral
		mk(150, 2, []uint64{200_000, 200_000, 200_000}, 0, false), // 3 inputs, maximum 2
		mk(150, 3, []uint64{5_000_000}, 0, true),                  // tokens, nothing returned
	}
	// collateral percentage 0 / 100 / 65535 and maximum 0 / 1 / n / n+1
	out = append(out,
		mk(0, 3, []uint64{0}, 0, false), mk(0, 3, []uint64{1}, 0, false),
		mk(100, 3, []uint64{300_000}, 0, false), mk(100, 3, []uint64{300_001}, 0, false),
		mk(65535, 3, []uint64{196_605_655}, 0, false), mk(65535, 3, []uint64{196_605_656}, 0, false), // 300001*65535 = 19660565535
		mk(150, 0, nil, 0, false), mk(150, 0, []uint64{450_002}, 0, false),
		mk(150, 1, []uint64{450_002}, 0, false), mk(150, 1, []uint64{250_000, 200_002}, 0, false),
		mk(150, 4, []uint64{100_000, 100_000, 100_000, 150_002}, 0, false),
		mk(150, 4, []uint64{100_000, 100_000, 100_000, 100_000, 50_002}, 0, false),
	)
	// fees (and therefore required collateral) at the integer-width boundaries:
	// balance one below / exactly at ceil(fee*pct/100), split over two inputs
	// when it does not fit into one
	maxU := ^uint64(0)
	for _, f := range []uint64{1<<32 - 1, 1 << 32, 1<<32 + 1, 1<<53 - 1, 1 << 53, 1<<53 + 1, 1<<63 - 1, 1 << 63, 1<<63 + 1, maxU} {
		for _, pct := range []uint{100, 150, 65535} {
			need := new(big.Int).Mul(new(big.Int).SetUint64(f), new(big.Int).SetUint64(uint64(pct)))
			ceil := new(big.Int).Add(need, big.NewInt(99))
			ceil.Div(ceil, big.NewInt(100))
			for _, d := range []int64{-1, 0} {
				bal := new(big.Int).Add(ceil, big.NewInt(d))
				var coll []uint64
				for bal.Sign() > 0 && len(coll) < 3 {
					part := new(big.Int).Set(bal)
					if !part.IsUint64() {
						part.SetUint64(maxU)
					}
					coll = append(coll, part.Uint64())
					bal.Sub(bal, part)
				}
				if bal.Sign() > 0 {
					continue // does not fit into three inputs
				}
				fee = f
				out = append(out, mk(pct, 3, coll, 0, false))
				fee = 300_001
			}
		}
	}
	// collateral amounts at the boundaries with an ordinary fee (amply sufficient)
	for _, a := range []uint64{1<<32 - 1, 1<<32 + 1, 1<<53 - 1, 1<<53 + 1, 1<<63 - 1, 1<<63 + 1, maxU} {
		out = append(out, mk(150, 3, []uint64{a}, 0, false))
	}
	if era >= Babbage {
		// the collateral return relative to the collateral inputs over the whole
		// range, without / with a consistent / with an inconsistent total_collateral
		for _, coll := range [][]uint64{{5_000_000}, {2_000_000, 3_000_000}} {
			const in, thr = 5_000_000, 450_002
			for _, ret := range c32ReturnCandidates(in, thr) {
				for tc := 0; tc < 3; tc++ {
					c := mk(150, 3, coll, 1, false)
					c.Tx.CollRet.V.Coin = ret
					switch tc {
					case 1: // consistent where a balance exists, else the nearest thing (0)
						c.Tx.TotalColl = u64p(uint64(max(int64(in)-int64(min(ret, 1<<62)), 0)))
					case 2:
						c.Tx.TotalColl = u64p(thr + 7)
					}
					out = append(out, c)
				}
			}
		}
		// two asset names under one policy, split across two collateral inputs
		multi := func(ret []AQ) *Case {
			c := mk(150, 3, []uint64{3_000_000, 3_000_000}, 2_000_000, false)
			c.Tx.Coll[0].V.Assets = []AQ{{c32Tokens[0], big.NewInt(5)}}
			c.Tx.Coll[1].V.Assets = []AQ{{c32Tokens[1], big.NewInt(7)}}
			c.Tx.CollRet.V.Assets = ret
			return c
		}
		out = append(out,
			multi([]AQ{{c32Tokens[0], big.NewInt(5)}, {c32Tokens[1], big.NewInt(7)}}), // all returned
			multi([]AQ{{c32Tokens[0], big.NewInt(5)}}),                                // second name missing
			multi([]AQ{{c32Tokens[1], big.NewInt(7)}}),                                // first name missing
			multi([]AQ{{c32Tokens[0], big.NewInt(5)}, {c32Tokens[1], big.NewInt(6)}}), // second name short by one
		)
		out = append(out,
			mk(150, 3, []uint64{5_000_000}, 4_900_000, false), // inputs ample, balance 100000 < 450002
			mk(150, 3, []uint64{5_000_000}, 4_549_998, false), // balance exactly 450002
			// fee*1500 = 450001500: inputs = floor(need/100) = 4500015 (0.5 short), return 2 ada on top
			mk(1500, 3, []uint64{4_500_015}, 2_000_000, false),
		)
	}
	return out
}

// c32Evaluate runs one case through the single rules and the whole rule list
// and judges it against the reference; report is rec.Fail (rapid) or
// rec.Violation (deterministic part).
func c32Evaluate(rec *evi.Recorder, c *Case, invalid bool, report func(key, what string, cs any)) {
	era := c.Tx.Era
	tx := c.Tx
	v := c32Ref(tx, c.P)
	dtx, raw, err := c32Decode(c, invalid)
	if err != nil {
		rec.Class(fmt.Sprintf("%s:decode_rejected:%s", era, errClass(err)))
		return
	}
	if len(dtx.Collateral()) != v.NColl {
		panic(fmt.Sprintf("harness: encoded %d collateral inputs, decoder reports %d", v.NColl, len(dtx.Collateral())))
	}
	st, err := c.state()
	if err != nil {
		rec.Class(fmt.Sprintf("%s:state_rejected:%s", era, errClass(err)))
		return
	}
	pp := c.P.forEra(era)
	rules := c32Rules(era)
	sample := c32Sample(c, v, raw, invalid)
	// purity: every call twice with the same verdict; transaction, parameters
	// and ledger state unchanged afterwards; verdicts independent of history
	pur := newPurity(rec, "C32", era.String(), dtx, report)
	pur.watchParams(pp)
	pur.watchState(st)
	defer pur.done()
	runAll := func(t ledger.Transaction, ls common.LedgerState, q common.ProtocolParameters) []error {
		out := []error{rules.noColl(t, c.Slot, ls, q), rules.insufficient(t, c.Slot, ls, q), rules.nonAda(t, c.Slot, ls, q), nil,
			common.VerifyTransaction(t, c.Slot, ls, q, rulesFor(era))}
		if rules.tooMany != nil {
			out[3] = rules.tooMany(t, c.Slot, ls, q)
		}
		return out
	}
	ruleNames := []string{"NoCollateralInputs", "InsufficientCollateral", "CollateralContainsNonAda", "TooManyCollateralInputs", "VerifyTransaction"}
	{
		first := runAll(dtx, st, pp)
		other := c32HistoryTx(era)
		usedOther := runAll(other, st, pp)
		again := runAll(dtx, st, pp)
		st2, _ := c.state()
		freshOther := runAll(other, st2, c.P.forEra(era))
		for i, n := range ruleNames {
			pur.history(n+" on this transaction after another one was validated", first[i], again[i])
			pur.history(n+" on the other transaction", freshOther[i], usedOther[i])
		}
	}

	// distribution
	rec.Class(fmt.Sprintf("%s:redeemers=%v", era, v.HasRedeemers))
	if v.HasRedeemers {
		mod := new(big.Int).Mod(v.Need, big.NewInt(100)).Sign() != 0
		rec.Class(fmt.Sprintf("fee_x_pct_divisible_by_100=%v", !mod))
		rec.Class("ref_sufficient=" + fmt.Sprint(v.Sufficient))
		rec.Class("nonada:" + v.NonAdaNote)
		rec.Class(fmt.Sprintf("ncoll_vs_max:%s", map[int]string{-1: "below", 0: "equal", 1: "above"}[cmpInt(v.NColl, int(c.P.MaxColl))]))
		if v.NColl == 0 {
			rec.Class("ncoll=0")
		}
		if tx.CollRet != nil {
			rec.Class("has_collateral_return")
			rec.Class(fmt.Sprintf("balance_sign=%d", v.Bal.Sign()))
			if tx.TotalColl != nil {
				rec.Class(fmt.Sprintf("balance_sign=%d:total_collateral_declared", v.Bal.Sign()))
			}
		}
		if !v.Sufficient && v.NColl > 0 {
			rec.Class("insufficient_cause_if_accepted:" + c32InsufficientCause(v))
		}
	}
	refOK := !v.HasRedeemers || (v.HasColl && v.Sufficient && v.AdaOnly && v.CountOK)
	rec.Class(fmt.Sprintf("ref_all_ok=%v", refOK))

	if v.HasRedeemers && v.NColl > 0 {
		var cs []string
		for _, in := range tx.Coll {
			cs = append(cs, fmt.Sprintf("%d/%d", in.V.Coin, len(in.V.Assets)))
		}
		rec.NonTrivial(fmt.Sprintf("%s fee=%d pct=%d max=%d coll=%s ret=%s/%s", era, tx.Fee, c.P.CollPct, c.P.MaxColl,
			strings.Join(cs, ","), v.Ret, v.NonAdaNote), sample)
	}

	fail := func(key, what string) { report(key, what, sample) }

	// ---- single rules -----------------------------------------------------
	if v.HasRedeemers {
		e := pur.twice("NoCollateralInputs", func() error { return rules.noColl(dtx, c.Slot, st, pp) })
		rec.Eval()
		if e == nil && !v.HasColl {
			fail(fmt.Sprintf("C32:%s:rule:no-collateral-inputs-accepted", era),
				fmt.Sprintf("%s.UtxoValidateNoCollateralInputs accepts a transaction with redeemers and no collateral input", era))
		}
		if v.NColl > 0 {
			e = pur.twice("InsufficientCollateral", func() error { return rules.insufficient(dtx, c.Slot, st, pp) })
			rec.Eval()
			rec.Class(fmt.Sprintf("rule_insufficient:lib_accepts=%v:ref=%v", e == nil, v.Sufficient))
			if e == nil && !v.Sufficient {
				cause := c32InsufficientCause(v)
				fail(fmt.Sprintf("C32:%s:rule:insufficient-collateral-accepted:%s", era, cause),
					fmt.Sprintf("%s.UtxoValidateInsufficientCollateral accepts: collateral inputs %s - return %s = balance %s, balance*100 = %s < fee*pct = %d*%d = %s (%s)",
						era, v.SumIn, v.Ret, v.Bal, new(big.Int).Mul(v.Bal, big.NewInt(100)), tx.Fee, c.P.CollPct, v.Need, cause))
			}
			e = pur.twice("CollateralContainsNonAda", func() error { return rules.nonAda(dtx, c.Slot, st, pp) })
			rec.Eval()
			rec.Class(fmt.Sprintf("rule_nonada:lib_accepts=%v:%s", e == nil, v.NonAdaNote))
			if e == nil && !v.AdaOnly && v.NonAdaJudged {
				fail(fmt.Sprintf("C32:%s:rule:non-ada-collateral-accepted:%s", era, v.NonAdaNote),
					fmt.Sprintf("%s.UtxoValidateCollateralContainsNonAda accepts collateral whose tokens are not (all) returned (%s)", era, v.NonAdaNote))
			}
		}
		if rules.tooMany != nil {
			e = pur.twice("TooManyCollateralInputs", func() error { return rules.tooMany(dtx, c.Slot, st, pp) })
			rec.Eval()
			if e == nil && !v.CountOK {
				fail(fmt.Sprintf("C32:%s:rule:too-many-collateral-inputs-accepted", era),
					fmt.Sprintf("%s.UtxoValidateTooManyCollateralInputs accepts %d collateral inputs, maximum %d", era, v.NColl, c.P.MaxColl))
			}
		}
	}

	// ---- full rule list ---------------------------------------------------
	full := pur.twice("VerifyTransaction", func() error { return common.VerifyTransaction(dtx, c.Slot, st, pp, rulesFor(era)) })
	rec.Eval()
	if full != nil {
		rec.Class(fmt.Sprintf("%s:full_rejects:ref_ok=%v", era, refOK))
		rec.Class(fmt.Sprintf("%s:full_rejects:%s", era, errClass(full)))
		if refOK {
			rec.Class("over_rejection_total") // counted, never flagged
		}
		return
	}
	rec.Class(fmt.Sprintf("%s:full_accepts:ref_ok=%v", era, refOK))
	if !v.HasRedeemers {
		return
	}
	if !v.HasColl {
		fail(fmt.Sprintf("C32:%s:full:no-collateral-inputs-accepted", era),
			fmt.Sprintf("VerifyTransaction(%s rules) accepts a transaction with redeemers and no collateral input", era))
	}
	if !v.CountOK {
		fail(fmt.Sprintf("C32:%s:full:too-many-collateral-inputs-accepted", era),
			fmt.Sprintf("VerifyTransaction(%s rules) accepts %d collateral inputs although maxCollateralInputs is %d", era, v.NColl, c.P.MaxColl))
	}
	if !v.AdaOnly && v.NonAdaJudged {
		fail(fmt.Sprintf("C32:%s:full:non-ada-collateral-accepted:%s", era, v.NonAdaNote),
			fmt.Sprintf("VerifyTransaction(%s rules) accepts collateral whose tokens are not (all) returned (%s)", era, v.NonAdaNote))
	}
	if v.HasColl && !v.Sufficient {
		cause := c32InsufficientCause(v)
		fail(fmt.Sprintf("C32:%s:full:insufficient-collateral-accepted:%s", era, cause),
			fmt.Sprintf("VerifyTransaction(%s rules) accepts: collateral inputs %s - return %s = balance %s; balance*100 = %s < fee*pct = %d*%d = %s (%s)",
				era, v.SumIn, v.Ret, v.Bal, new(big.Int).Mul(v.Bal, big.NewInt(100)), tx.Fee, c.P.CollPct, v.Need, cause))
	}
}

var c32HistCache = map[Era]ledger.Transaction{}

// c32HistoryTx is a fixed other transaction of the era (scenario "two collateral
// inputs, sufficient"; its UTxO entries are in nobody else's state).
func c32HistoryTx(era Era) ledger.Transaction {
	if t, ok := c32HistCache[era]; ok {
		return t
	}
	c := c32Scenarios(era)[3]
	for i := range c.Tx.Ins {
		c.Tx.Ins[i].TxID = hash256([]byte("c32/history/in"))
	}
	for i := range c.Tx.Coll {
		c.Tx.Coll[i].TxID = hash256([]byte("c32/history/coll"))
	}
	dtx, _, err := c33Decode(c.Tx, true)
	if err != nil {
		panic(err)
	}
	c32HistCache[era] = dtx
	return dtx
}

// rec32Class carries the class label of the relative-return draw of the case
// being generated to the evaluation (reset by c32Gen).
var rec32Class string

func cmpU(a, b uint64) int {
	switch {
	case a < b:
		return -1
	case a > b:
		return 1
	}
	return 0
}

// c32ReturnCandidates: collateral-return coin relative to the sum of the
// collateral inputs (in) and the threshold thr = ceil(fee*pct/100), in >= thr.
func c32ReturnCandidates(in, thr uint64) []uint64 {
	sub := func(a, b uint64) uint64 {
		if a < b {
			return 0
		}
		return a - b
	}
	add := func(a, b uint64) uint64 {
		if a+b < a {
			return ^uint64(0)
		}
		return a + b
	}
	return []uint64{0, 1, sub(sub(in, thr), 1), sub(in, thr), add(sub(in, thr), 1), sub(in, 1), in, add(in, 1), add(in, in), 1 << 63, ^uint64(0)}
}

func cmpInt(a, b int) int {
	switch {
	case a < b:
		return -1
	case a > b:
		return 1
	}
	return 0
}
