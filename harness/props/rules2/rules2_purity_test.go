package rules2

// Rule purity / repeatability helpers shared by C30, C32 and C33 (adapted copy of
// the rules3 helper; test packages cannot import each other): a validation
// rule's verdict is a function of (transaction, slot, ledger state, protocol
// parameters) - never of what was validated before - and validating must not
// change the transaction, the parameters or the maps handed in.

import (
	"errors"
	"fmt"
	"math/big"
	"reflect"
	"sort"
	"strings"

	"verif/harness/internal/evi"

	"github.com/blinklabs-io/gouroboros/cbor"
	"github.com/blinklabs-io/gouroboros/ledger/common"
)

// txSnap is the observable state of a decoded transaction, field -> rendering.
type txSnap struct {
	names []string
	vals  map[string]string
}

func (s *txSnap) put(name, v string) {
	s.names = append(s.names, name)
	s.vals[name] = v
}

func hexs(b []byte) string { return fmt.Sprintf("%x", b) }

// snapshotTx renders everything a caller can observe of a decoded transaction
// through the common.Transaction interface. Only deterministic accessors are
// used (maps are rendered sorted).
func snapshotTx(tx common.Transaction) *txSnap {
	s := &txSnap{vals: map[string]string{}}
	s.put("cbor", hexs(tx.Cbor()))
	if b, err := cbor.Encode(tx); err == nil {
		s.put("re-encoding", hexs(b))
	} else {
		s.put("re-encoding", "error")
	}
	h := tx.Hash()
	s.put("hash", hexs(h[:]))
	id := tx.Id()
	s.put("id", hexs(id[:]))
	s.put("is-valid", fmt.Sprint(tx.IsValid()))
	s.put("fee", fmt.Sprint(tx.Fee()))
	s.put("ttl", fmt.Sprint(tx.TTL()))
	s.put("validity-start", fmt.Sprint(tx.ValidityIntervalStart()))
	if h := tx.ScriptDataHash(); h != nil {
		s.put("script-data-hash", hexs(h[:]))
	} else {
		s.put("script-data-hash", "absent")
	}
	ins := func(name string, l []common.TransactionInput) {
		var p []string
		for _, i := range l {
			p = append(p, i.String())
		}
		s.put(name, strings.Join(p, ","))
	}
	ins("inputs", tx.Inputs())
	ins("collateral", tx.Collateral())
	ins("reference-inputs", tx.ReferenceInputs())
	out := func(o common.TransactionOutput) string {
		if o == nil {
			return "nil"
		}
		a := o.Address()
		ab, _ := a.Bytes()
		r := fmt.Sprintf("addr=%x coin=%v cbor=%x", ab, o.Amount(), o.Cbor())
		if as := o.Assets(); as != nil {
			if b, err := cbor.Encode(as); err == nil {
				r += " assets=" + hexs(b)
			}
		}
		return r
	}
	var outs []string
	for _, o := range tx.Outputs() {
		outs = append(outs, out(o))
	}
	s.put("outputs", strings.Join(outs, ";"))
	var prod []string
	for _, u := range tx.Produced() {
		prod = append(prod, u.Id.String()+"->"+out(u.Output))
	}
	s.put("produced", strings.Join(prod, ";"))
	s.put("collateral-return", out(tx.CollateralReturn()))
	var rs []string
	for _, r := range tx.RequiredSigners() { // order is observable
		rs = append(rs, hexs(r[:]))
	}
	s.put("required-signers", strings.Join(rs, ","))
	var wd []string
	for a, v := range tx.Withdrawals() {
		ab, _ := a.Bytes()
		wd = append(wd, fmt.Sprintf("%x=%v", ab, v))
	}
	sort.Strings(wd)
	s.put("withdrawals", strings.Join(wd, ","))
	if m := tx.AssetMint(); m != nil {
		if b, err := cbor.Encode(m); err == nil {
			s.put("mint", hexs(b))
		}
	}
	if w := tx.Witnesses(); w != nil {
		var vk, bw, ns []string
		for _, v := range w.Vkey() {
			vk = append(vk, hexs(v.Vkey)+"/"+hexs(v.Signature))
		}
		for _, b := range w.Bootstrap() {
			bw = append(bw, hexs(b.PublicKey)+"/"+hexs(b.Signature)+"/"+hexs(b.ChainCode)+"/"+hexs(b.Attributes))
		}
		for _, n := range w.NativeScripts() {
			h := n.Hash()
			ns = append(ns, hexs(n.Cbor())+"#"+hexs(h[:]))
		}
		s.put("vkey-witnesses", fmt.Sprintf("%d:%s", len(vk), strings.Join(vk, ",")))
		s.put("bootstrap-witnesses", fmt.Sprintf("%d:%s", len(bw), strings.Join(bw, ",")))
		s.put("native-scripts", fmt.Sprintf("%d:%s", len(ns), strings.Join(ns, ",")))
		var ps []string
		for _, p := range w.PlutusV1Scripts() {
			ps = append(ps, "v1:"+hexs(p))
		}
		for _, p := range w.PlutusV2Scripts() {
			ps = append(ps, "v2:"+hexs(p))
		}
		for _, p := range w.PlutusV3Scripts() {
			ps = append(ps, "v3:"+hexs(p))
		}
		for _, p := range common.PlutusV4ScriptsFromWitnessSet(w) {
			ps = append(ps, "v4:"+hexs(p))
		}
		s.put("plutus-scripts", fmt.Sprintf("%d:%s", len(ps), strings.Join(ps, ",")))
		var ds []string
		for _, d := range w.PlutusData() {
			ds = append(ds, hexs(d.Cbor()))
		}
		s.put("datums", fmt.Sprintf("%d:%s", len(ds), strings.Join(ds, ",")))
		var rd []string
		if r := w.Redeemers(); r != nil {
			for k, v := range r.Iter() {
				rd = append(rd, fmt.Sprintf("%d/%d=%x[%d,%d]", k.Tag, k.Index, v.Data.Cbor(), v.ExUnits.Memory, v.ExUnits.Steps))
			}
		}
		s.put("redeemers", fmt.Sprintf("%d:%s", len(rd), strings.Join(rd, ",")))
	}
	return s
}

// diff returns the names of the fields that differ.
func (s *txSnap) diff(o *txSnap) []string {
	var d []string
	for _, n := range s.names {
		if s.vals[n] != o.vals[n] {
			d = append(d, n)
		}
	}
	return d
}

// snapCostModels renders cost-model tables deterministically.
func snapCostModels(cm map[uint][]int64) string {
	var ks []int
	for k := range cm {
		ks = append(ks, int(k))
	}
	sort.Ints(ks)
	var p []string
	for _, k := range ks {
		p = append(p, fmt.Sprintf("%d:%v", k, cm[uint(k)]))
	}
	return strings.Join(p, ";")
}

// verdictOf abstracts an error into accept / reject + the chain of error types
// (messages may legitimately render map contents in varying order).
func verdictOf(err error) string {
	if err == nil {
		return "accept"
	}
	var ts []string
	for e := err; e != nil; e = errors.Unwrap(e) {
		ts = append(ts, fmt.Sprintf("%T", e))
	}
	return "reject:" + strings.Join(ts, "<")
}

func verdictsOf(errs []error) []string {
	out := make([]string, len(errs))
	for i, e := range errs {
		out[i] = verdictOf(e)
	}
	return out
}

func clipS(s string) string {
	if len(s) > 300 {
		return s[:300] + "..."
	}
	return s
}

// snapParams renders a protocol-parameter object completely (JSON follows the
// pointers: rationals render as "n/d", cost-model maps sorted by key).
func snapParams(pp common.ProtocolParameters) string {
	var sb strings.Builder
	deepRender(&sb, reflect.ValueOf(pp), 0)
	return sb.String()
}

// deepRender writes a deterministic rendering of v that follows pointers and
// sorts map keys (big.Int / big.Rat print their value).
func deepRender(sb *strings.Builder, v reflect.Value, depth int) {
	if !v.IsValid() {
		sb.WriteString("invalid")
		return
	}
	if depth > 12 {
		sb.WriteString("...")
		return
	}
	if v.CanInterface() {
		switch x := v.Interface().(type) {
		case *big.Int:
			if x == nil {
				sb.WriteString("nil")
			} else {
				sb.WriteString(x.String())
			}
			return
		case *big.Rat:
			if x == nil {
				sb.WriteString("nil")
			} else {
				sb.WriteString(x.String())
			}
			return
		}
	}
	switch v.Kind() {
	case reflect.Pointer, reflect.Interface:
		if v.IsNil() {
			sb.WriteString("nil")
			return
		}
		sb.WriteString("&")
		deepRender(sb, v.Elem(), depth+1)
	case reflect.Struct:
		sb.WriteString("{")
		t := v.Type()
		for i := 0; i < v.NumField(); i++ {
			sb.WriteString(t.Field(i).Name + ":")
			deepRender(sb, v.Field(i), depth+1)
			sb.WriteString(" ")
		}
		sb.WriteString("}")
	case reflect.Map:
		var parts []string
		it := v.MapRange()
		for it.Next() {
			var kb, vb strings.Builder
			deepRender(&kb, it.Key(), depth+1)
			deepRender(&vb, it.Value(), depth+1)
			parts = append(parts, kb.String()+"="+vb.String())
		}
		sort.Strings(parts)
		sb.WriteString("map[" + strings.Join(parts, " ") + "]")
	case reflect.Slice, reflect.Array:
		if v.Kind() == reflect.Slice && v.IsNil() {
			sb.WriteString("nil")
			return
		}
		sb.WriteString("[")
		for i := 0; i < v.Len(); i++ {
			deepRender(sb, v.Index(i), depth+1)
			sb.WriteString(" ")
		}
		sb.WriteString("]")
	case reflect.Bool:
		fmt.Fprint(sb, v.Bool())
	case reflect.Int, reflect.Int8, reflect.Int16, reflect.Int32, reflect.Int64:
		fmt.Fprint(sb, v.Int())
	case reflect.Uint, reflect.Uint8, reflect.Uint16, reflect.Uint32, reflect.Uint64, reflect.Uintptr:
		fmt.Fprint(sb, v.Uint())
	case reflect.Float32, reflect.Float64:
		fmt.Fprint(sb, v.Float())
	case reflect.String:
		fmt.Fprintf(sb, "%q", v.String())
	default:
		sb.WriteString(v.Kind().String())
	}
}

// snapState renders the mock ledger state (UTxO entries with the bytes and
// values of their outputs, registrations, delegations) deterministically.
func snapState(ls common.LedgerState) string {
	if n, ok := ls.(noCapState); ok {
		ls = n.LedgerState
	}
	st, ok := ls.(*State)
	if !ok {
		return fmt.Sprintf("%T", ls)
	}
	var p []string
	for k, u := range st.utxo {
		r := "utxo " + k + " id=" + u.Id.String()
		if u.Output != nil {
			a := u.Output.Address()
			ab, _ := a.Bytes()
			r += fmt.Sprintf(" addr=%x coin=%v cbor=%x", ab, u.Output.Amount(), u.Output.Cbor())
			if as := u.Output.Assets(); as != nil {
				if b, err := cbor.Encode(as); err == nil {
					r += " assets=" + hexs(b)
				}
			}
		}
		p = append(p, r)
	}
	for k, v := range st.stakeReg {
		p = append(p, fmt.Sprintf("stake %x=%v", k, v))
	}
	for k, v := range st.pools {
		p = append(p, fmt.Sprintf("pool %x=%v", k, v))
	}
	for k, v := range st.dreps {
		p = append(p, fmt.Sprintf("drep %x=%v", k, v))
	}
	for k, v := range st.rewards {
		p = append(p, fmt.Sprintf("reward %x=%v", k, v))
	}
	for k, v := range st.drepDeleg {
		p = append(p, fmt.Sprintf("deleg %x=%v", k, v))
	}
	sort.Strings(p)
	return fmt.Sprintf("net=%d;", st.net) + strings.Join(p, ";")
}

// purity watches one decoded transaction and the parameter / ledger-state
// objects handed to the rules during one evaluation:
//   - twice() runs a rule twice on the same objects and demands the same verdict
//     (accept/reject + error type chain);
//   - done() demands that the transaction's observable state, every watched
//     parameter object and every watched ledger state are what they were.
type purity struct {
	rec     *evi.Recorder
	prop    string
	era     string
	report  func(key, what string, cs any)
	tx      common.Transaction
	before  *txSnap
	watched []watched
	ran     []string
}

type watched struct {
	kind string // "params" | "ledger-state"
	snap func() string
	was  string
}

func newPurity(rec *evi.Recorder, prop, era string, tx common.Transaction, report func(key, what string, cs any)) *purity {
	return &purity{rec: rec, prop: prop, era: era, report: report, tx: tx, before: snapshotTx(tx)}
}

func (p *purity) watchParams(pp common.ProtocolParameters) {
	f := func() string { return snapParams(pp) }
	p.watched = append(p.watched, watched{"params", f, f()})
}

func (p *purity) watchState(ls common.LedgerState) {
	f := func() string { return snapState(ls) }
	p.watched = append(p.watched, watched{"ledger-state", f, f()})
}

// twice returns the error of the first run.
func (p *purity) twice(name string, f func() error) error {
	e1 := f()
	e2 := f()
	p.rec.Class("purity:second_run_compared")
	p.ran = append(p.ran, name)
	if v1, v2 := verdictOf(e1), verdictOf(e2); v1 != v2 {
		p.report(fmt.Sprintf("%s:%s:second-run-verdict-differs", p.prop, p.era),
			fmt.Sprintf("%s on the same transaction, state and parameters: first run %s (%v), second run %s (%v)", name, v1, e1, v2, e2),
			map[string]any{"rule": name, "first": fmt.Sprint(e1), "second": fmt.Sprint(e2), "tx_cbor": evi.Hex(p.tx.Cbor())})
	}
	return e1
}

func (p *purity) done() {
	p.rec.Class("purity:tx_snapshot_compared")
	after := snapshotTx(p.tx)
	for _, f := range p.before.diff(after) {
		p.report(fmt.Sprintf("%s:%s:rule-mutates-tx:%s", p.prop, p.era, f),
			fmt.Sprintf("validating changed the transaction's %s: before %s, after %s (rules run: %v)", f, clipS(p.before.vals[f]), clipS(after.vals[f]), p.ran),
			map[string]any{"field": f, "before": clipS(p.before.vals[f]), "after": clipS(after.vals[f]), "rules": p.ran, "tx_cbor": evi.Hex(p.tx.Cbor())})
	}
	for _, w := range p.watched {
		p.rec.Class("purity:" + w.kind + "_compared")
		if now := w.snap(); now != w.was {
			p.report(fmt.Sprintf("%s:%s:rule-mutates-%s", p.prop, p.era, w.kind),
				fmt.Sprintf("validating changed the %s object handed in: before %s, after %s (rules run: %v)", w.kind, clipDiff(w.was, now), clipDiff(now, w.was), p.ran),
				map[string]any{"before": w.was, "after": now, "rules": p.ran})
		}
	}
}

// history reports a verdict that differs between fresh objects and objects that
// were already used to validate other transactions.
func (p *purity) history(what string, fresh, used error) {
	p.rec.Class("purity:history_compared")
	if vf, vu := verdictOf(fresh), verdictOf(used); vf != vu {
		p.report(fmt.Sprintf("%s:%s:verdict-depends-on-history", p.prop, p.era),
			fmt.Sprintf("%s: on fresh state/parameter objects %s (%v); on objects that validated other transactions before %s (%v)", what, vf, fresh, vu, used),
			map[string]any{"what": what, "fresh": fmt.Sprint(fresh), "used": fmt.Sprint(used), "tx_cbor": evi.Hex(p.tx.Cbor())})
	}
}

// clipDiff shows a around the first position where it differs from b.
func clipDiff(a, b string) string {
	i := 0
	for i < len(a) && i < len(b) && a[i] == b[i] {
		i++
	}
	lo := max(0, i-40)
	hi := min(len(a), i+80)
	return "…" + a[lo:hi] + "…"
}
