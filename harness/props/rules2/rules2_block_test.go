package rules2

// Generated blocks for block-derived transactions: a real fixture block of the
// era whose transaction segments are replaced (through the independent xcbor
// tree) by harness-built transactions plus a few of the fixture's own
// transactions as fillers, and whose header commitment to the body is
// recomputed with the harness's blake2b so that the era decoder accepts the
// block with body-hash validation switched on.

import (
	"fmt"
	"sync"

	"github.com/blinklabs-io/gouroboros/ledger"

	"verif/harness/internal/fixtures"
	"verif/harness/internal/xcbor"
)

func blockTypeOf(era Era) uint { return uint(era) + 1 }

// BlockTx is one transaction as it sits in a block: original item bytes.
type BlockTx struct {
	Body, Wits []byte
	Aux        []byte // nil = none
	Invalid    bool
	// Dijkstra only: head form of the inline [body, wits, aux] array (0 = minimal)
	OuterForm xcbor.Form
}

type blockFixture struct {
	typ    uint
	bytes  []byte
	filler []BlockTx
}

var (
	blockFxOnce sync.Once
	blockFx     map[Era]*blockFixture
)

func loadBlockFixtures() {
	blockFxOnce.Do(func() {
		blockFx = map[Era]*blockFixture{}
		for _, era := range allEras {
			fx := fixtures.ByName(era.String())
			bf := &blockFixture{typ: fx.Type, bytes: fx.Bytes}
			root := xcbor.Raw(fx.Bytes)
			if era == Dijkstra {
				txItems := append([]*xcbor.Node(nil), root.Items[1].Items[1].Items...)
				txItems = append(txItems, xcbor.Raw(fixtures.DijkstraTx()))
				for _, tx := range txItems {
					f := BlockTx{Body: tx.Items[0].Encode(), Wits: tx.Items[1].Encode()}
					if last := tx.Items[len(tx.Items)-1]; !(last.Kind == xcbor.Simple && last.Arg == 22) {
						f.Aux = last.Encode()
					}
					bf.filler = append(bf.filler, f)
				}
			} else {
				invalid := map[uint64]bool{}
				if len(root.Items) > 4 {
					l := root.Items[4]
					if l.Kind == xcbor.Tag {
						l = l.Items[0]
					}
					for _, n := range l.Items {
						invalid[n.Arg] = true
					}
				}
				for i := range root.Items[1].Items {
					if i >= 6 {
						break
					}
					f := BlockTx{Body: root.Items[1].Items[i].Encode(), Wits: root.Items[2].Items[i].Encode(), Invalid: invalid[uint64(i)]}
					if a := root.Items[3].MapGet(uint64(i)); a != nil {
						f.Aux = a.Encode()
					}
					bf.filler = append(bf.filler, f)
				}
			}
			blockFx[era] = bf
		}
	})
}

// nFillers is the number of fixture transactions available as fillers.
func nFillers(era Era) int {
	loadBlockFixtures()
	return len(blockFx[era].filler)
}

func filler(era Era, i int) BlockTx {
	loadBlockFixtures()
	return blockFx[era].filler[i]
}

// buildBlock assembles a block of the era from the given transactions.
func buildBlock(era Era, txs []BlockTx) []byte {
	loadBlockFixtures()
	bf := blockFx[era]
	root := xcbor.Raw(bf.bytes)
	var invalid []*xcbor.Node
	for i, t := range txs {
		if t.Invalid {
			invalid = append(invalid, xcbor.U(uint64(i)))
		}
	}
	if era == Dijkstra {
		var items []*xcbor.Node
		for _, t := range txs {
			aux := xcbor.Null()
			if t.Aux != nil {
				aux = xcbor.Raw(t.Aux)
			}
			n := xcbor.A(xcbor.Raw(t.Body), xcbor.Raw(t.Wits), aux)
			if t.OuterForm != xcbor.FormMinimal && n.CanApply(t.OuterForm) {
				n.Apply(t.OuterForm, 0)
			}
			items = append(items, n)
		}
		body := root.Items[1]
		body.Items[1] = xcbor.A(items...)
		if len(invalid) > 0 {
			body.Items[0] = xcbor.A(invalid...)
		} else {
			body.Items[0] = xcbor.Null()
		}
		h := hash256(body.Encode())
		setHashBytes(root.Items[0].Items[0].Items[7], h[:])
		return root.Encode()
	}
	var bodies, wits, aux []*xcbor.Node
	for i, t := range txs {
		bodies = append(bodies, xcbor.Raw(t.Body))
		wits = append(wits, xcbor.Raw(t.Wits))
		if t.Aux != nil {
			aux = append(aux, xcbor.U(uint64(i)), xcbor.Raw(t.Aux))
		}
	}
	root.Items[1] = xcbor.A(bodies...)
	root.Items[2] = xcbor.A(wits...)
	root.Items[3] = xcbor.M(aux...)
	if era >= Alonzo {
		root.Items[4] = xcbor.A(invalid...)
	}
	var cat []byte
	for _, seg := range root.Items[1:] {
		s := hash256(seg.Encode())
		cat = append(cat, s[:]...)
	}
	h := hash256(cat)
	idx := 8
	if era >= Babbage {
		idx = 7
	}
	setHashBytes(root.Items[0].Items[0].Items[idx], h[:])
	return root.Encode()
}

func setHashBytes(n *xcbor.Node, data []byte) {
	if n.Kind != xcbor.Bytes || n.Indef || len(n.Data) != len(data) {
		panic(fmt.Sprintf("block template: body hash slot is %v len %d", n.Kind, len(n.Data)))
	}
	n.Data = data
}

// originalOf is the statement's "original encoding" of a block-derived
// transaction: the reassembly [body, witnesses, (is_valid,) aux/null] of its
// original items with a minimal array head (Dijkstra: the inline item itself).
func originalOf(era Era, t BlockTx) []byte {
	aux := xcbor.Null()
	if t.Aux != nil {
		aux = xcbor.Raw(t.Aux)
	}
	var n *xcbor.Node
	switch {
	case era >= Alonzo && era <= Conway:
		n = xcbor.A(xcbor.Raw(t.Body), xcbor.Raw(t.Wits), xcbor.Bool(!t.Invalid), aux)
	default:
		n = xcbor.A(xcbor.Raw(t.Body), xcbor.Raw(t.Wits), aux)
		if era == Dijkstra && t.OuterForm != xcbor.FormMinimal && n.CanApply(t.OuterForm) {
			n.Apply(t.OuterForm, 0)
		}
	}
	return n.Encode()
}

func decodeBlock(era Era, data []byte) (ledger.Block, error) {
	return ledger.NewBlockFromCbor(blockTypeOf(era), data)
}
