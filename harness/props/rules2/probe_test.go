package rules2

import (
	"fmt"
	"testing"

	"github.com/blinklabs-io/gouroboros/ledger/common"
)

func TestProbeP2(t *testing.T) {
	for _, era := range []Era{Alonzo, Babbage, Conway, Dijkstra} {
		for _, lang := range []int{1, 2, 3} {
			for _, inv := range []bool{true, false} {
				p := defaultParams(era)
				tx := &TxSpec{Era: era, Net: 0}
				tx.Ins = []In{{TxID: hash256([]byte("a")), Ix: 0, Key: 0, V: Val{Coin: 100_000_000}}}
				tx.Coll = []In{{TxID: hash256([]byte("c")), Ix: 1, Key: 2, V: Val{Coin: 5_000_000}}}
				tx.Fee = 300000
				tx.Outs = []Out{{Addr: payAddr(0, 1), V: Val{Coin: 100_000_000 - 300000}}}
				tx.Rdms = []Rdm{{Tag: 0, Index: 0, Mem: 1000, Steps: 1000}}
				tx.Plutus = []PScript{{Lang: lang, Bytes: []byte{0x45, 1, 1, 0, 0x24, 0x99}}}
				tx.CostModels = p.CostModels
				tx.Invalid = inv
				tx.RdmMap = era >= Conway && lang == 3
				ss := newStSpec()
				c := &Case{Tx: tx, P: p, SS: ss, Slot: 10}
				st, _ := c.state()
				raw, _ := tx.Encode()
				dtx, err := decodeTx(era, raw)
				if err != nil {
					fmt.Printf("%s lang=%d inv=%v decode: %v\n", era, lang, inv, err)
					continue
				}
				e1 := common.VerifyTransaction(dtx, 10, st, p.forEra(era), rulesFor(era))
				fmt.Printf("%s lang=%d inv=%v isvalid=%v: %v\n", era, lang, inv, dtx.IsValid(), e1)
			}
		}
	}
}
