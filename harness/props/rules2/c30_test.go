package rules2

// C30 -- the minimum fee and the size limit use the transaction's real size.
//
// Reference: L = length of the transaction's ORIGINAL encoding (standalone: the
// bytes handed to the decoder; block-derived: the reassembly of its original
// body / witness-set / auxiliary-data items, see originalOf); size = L - 1 when
// the envelope has four elements (the is_valid flag), else L;
// min = a*size + b in unbounded integers.
//
//	fee rule (single rule or whole rule list) accepts  =>  fee >= min
//	min >= 2^64                                         =>  an error, never acceptance, MinFeeTx errs
//	size rule accepts                                   =>  L <= maxTxSize
//	size rule rejects                                   =>  the length it reports is L
//
// The fee is part of the signed body, so "fee in {min-1, min, min+1}" is
// realised by choosing (a, b) after the bytes are final: min in {fee+1, fee, fee-1}.

import (
	"bytes"
	"errors"
	"fmt"
	"math/big"
	"os"
	"testing"

	"github.com/blinklabs-io/gouroboros/ledger"
	"github.com/blinklabs-io/gouroboros/ledger/allegra"
	"github.com/blinklabs-io/gouroboros/ledger/alonzo"
	"github.com/blinklabs-io/gouroboros/ledger/babbage"
	"github.com/blinklabs-io/gouroboros/ledger/common"
	"github.com/blinklabs-io/gouroboros/ledger/conway"
	"github.com/blinklabs-io/gouroboros/ledger/dijkstra"
	"github.com/blinklabs-io/gouroboros/ledger/mary"
	"github.com/blinklabs-io/gouroboros/ledger/shelley"
	"pgregory.net/rapid"

	"verif/harness/internal/evi"
	"verif/harness/internal/xcbor"
)

type c30RuleSet struct {
	fee, size common.UtxoValidationRuleFunc
	minFee    func(common.Transaction, common.ProtocolParameters) (uint64, error)
}

func c30Rules(era Era) c30RuleSet {
	switch era {
	case Shelley:
		return c30RuleSet{shelley.UtxoValidateFeeTooSmallUtxo, shelley.UtxoValidateMaxTxSizeUtxo, shelley.MinFeeTx}
	case Allegra:
		return c30RuleSet{allegra.UtxoValidateFeeTooSmallUtxo, allegra.UtxoValidateMaxTxSizeUtxo, nil}
	case Mary:
		return c30RuleSet{mary.UtxoValidateFeeTooSmallUtxo, mary.UtxoValidateMaxTxSizeUtxo, mary.MinFeeTx}
	case Alonzo:
		return c30RuleSet{alonzo.UtxoValidateFeeTooSmallUtxo, alonzo.UtxoValidateMaxTxSizeUtxo, alonzo.MinFeeTx}
	case Babbage:
		return c30RuleSet{babbage.UtxoValidateFeeTooSmallUtxo, babbage.UtxoValidateMaxTxSizeUtxo, babbage.MinFeeTx}
	case Conway:
		return c30RuleSet{conway.UtxoValidateFeeTooSmallUtxo, conway.UtxoValidateMaxTxSizeUtxo, conway.MinFeeTx}
	case Dijkstra:
		return c30RuleSet{dijkstra.UtxoValidateFeeTooSmallUtxo, dijkstra.UtxoValidateMaxTxSizeUtxo, dijkstra.MinFeeTx}
	}
	panic("era")
}

var two64 = new(big.Int).Lsh(big.NewInt(1), 64)

// c30Setting is one choice of fee parameters.
type c30Setting struct {
	Label string
	A, B  uint64
}

// c30Settings derives the parameter choices from the final size and fee.
func c30Settings(rt *rapid.T, size, fee uint64) []c30Setting {
	var out []c30Setting
	for _, d := range []int64{-1, 0, 1} {
		// min = fee + d  (fee = min - d)
		if d < 0 && fee == 0 {
			continue
		}
		target := fee + uint64(d)
		if d < 0 {
			target = fee - 1
		}
		maxA := target / size
		var a uint64
		switch rapid.IntRange(0, 4).Draw(rt, "aClass") {
		case 0:
			a = 0
		case 1:
			a = min(1, maxA)
		case 2:
			a = maxA
		case 3:
			a = min(44, maxA)
		default:
			a = rapid.Uint64Range(0, maxA).Draw(rt, "a")
		}
		b := target - a*size
		lbl := map[int64]string{-1: "fee=min+1", 0: "fee=min", 1: "fee=min-1"}[d]
		out = append(out, c30Setting{lbl, a, b})
	}
	// overflow range
	q := (^uint64(0)) / size // largest a with a*size <= 2^64-1
	rem := ^uint64(0) - q*size
	switch rapid.IntRange(0, 5).Draw(rt, "ovClass") {
	case 0: // a*size wraps to a small value: a wrapped minimum would be <= fee
		out = append(out, c30Setting{"overflow:mul-wraps-small", q + 1, 0})
	case 1:
		out = append(out, c30Setting{"overflow:mul", q + 1 + rapid.Uint64Range(0, 1<<20).Draw(rt, "ovA"), rapid.Uint64Range(0, 1000).Draw(rt, "ovB")})
	case 2: // a*size fits, adding b carries; the wrapped sum is tiny
		out = append(out, c30Setting{"overflow:add-wraps-small", q, rem + 1 + rapid.Uint64Range(0, min(fee, 1000)).Draw(rt, "ovCarry")})
	case 3: // exactly 2^64-1: representable, far above the fee
		out = append(out, c30Setting{"near-overflow:max-uint64", q, rem})
	case 4:
		out = append(out, c30Setting{"overflow:a-max", ^uint64(0), rapid.Uint64Range(0, ^uint64(0)).Draw(rt, "ovBany")})
	default:
		out = append(out, c30Setting{"overflow:b-max", rapid.Uint64Range(1, 1000).Draw(rt, "ovAsmall"), ^uint64(0)})
	}
	return out
}

// c30Compare explains how tx.Cbor() differs from the original bytes.
func c30Compare(orig, got []byte) string {
	if bytes.Equal(orig, got) {
		return "identical"
	}
	o, err1 := xcbor.ParseExact(orig)
	g, err2 := xcbor.ParseExact(got)
	if err1 != nil || err2 != nil || o.Kind != xcbor.Array || g.Kind != xcbor.Array {
		return "unparseable"
	}
	if len(o.Items) != len(g.Items) {
		return fmt.Sprintf("envelope-%d-vs-%d-elements", len(o.Items), len(g.Items))
	}
	names := []string{"body", "witnesses", "aux"}
	if len(o.Items) == 4 {
		names = []string{"body", "witnesses", "is_valid", "aux"}
	}
	var diff string
	for i := range o.Items {
		if !bytes.Equal(o.Items[i].Encode(), g.Items[i].Encode()) {
			if diff != "" {
				diff += "+"
			}
			diff += names[i]
		}
	}
	if diff == "" {
		return "envelope-head"
	}
	return diff + "-reserialised"
}

type c30Built struct {
	Path     string // "standalone" | "block"
	Dtx      ledger.Transaction
	Original []byte
	Four     bool
	Styled   string
	BlockLen int
	Index    int
}

// c30Style installs a rapid-drawn style plan on the transaction.
func c30Style(rt *rapid.T, tx *TxSpec, standalone bool, desc *string) {
	if rapid.IntRange(0, 3).Draw(rt, "canonical") == 0 {
		*desc = "canonical"
		return
	}
	st := &Styler{}
	note := func(part string, es []xcbor.Edit) {
		if len(es) > 0 {
			*desc += part + "[" + xcbor.EditsString(es) + "]"
		}
	}
	forms := []xcbor.Form{xcbor.FormMinimal, xcbor.FormW1, xcbor.FormW2, xcbor.FormW4, xcbor.FormW8}
	if rapid.IntRange(0, 3).Draw(rt, "allowIndef") == 0 {
		forms = xcbor.AllForms
	}
	if rapid.IntRange(0, 3).Draw(rt, "styleBody") != 0 {
		st.Body = func(n *xcbor.Node) {
			note("body", xcbor.Restyle(rt, n, xcbor.StyleOpts{MaxEdits: 3, Forms: forms}))
		}
	}
	if rapid.IntRange(0, 2).Draw(rt, "styleWits") == 0 {
		st.Wits = func(n *xcbor.Node) {
			note("wits", xcbor.Restyle(rt, n, xcbor.StyleOpts{MaxEdits: 2, Forms: forms}))
		}
	}
	if rapid.IntRange(0, 2).Draw(rt, "styleAux") == 0 {
		st.Aux = func(n *xcbor.Node) {
			note("aux", xcbor.Restyle(rt, n, xcbor.StyleOpts{MaxEdits: 2, Forms: forms}))
		}
	}
	if standalone && rapid.IntRange(0, 2).Draw(rt, "styleTop") == 0 {
		st.Top = func(n *xcbor.Node) {
			note("top", xcbor.Restyle(rt, n, xcbor.StyleOpts{MaxEdits: 1, Forms: xcbor.AllForms,
				Filter: func(_ *xcbor.Node, path string) bool { return path == "" }}))
		}
	}
	tx.Style = st
}

func c30MaxSizeErr(err error) (uint, bool) {
	var e shelley.MaxTxSizeUtxoError
	if errors.As(err, &e) {
		return e.TxSize, true
	}
	var ep *shelley.MaxTxSizeUtxoError
	if errors.As(err, &ep) {
		return ep.TxSize, true
	}
	return 0, false
}

func TestC30(t *testing.T) {
	rec := evi.New(t, "C30", evi.Exploration,
		"harness-built, signed, balanced transactions of Shelley..Dijkstra (certificates, withdrawals, mint, metadata, collateral bystanders), encoded with rapid-drawn non-canonical CBOR head forms in body (before signing), witness set, auxiliary data and envelope (xcbor.Restyle; data model unchanged), taken through the library either standalone (NewTransactionFromCbor) or block-derived (inside a generated block of the era with fixture fillers, header commitment recomputed; Block.Transactions()[i]); fee parameters chosen afterwards so that fee in {min-1, min, min+1} plus one setting in the uint64 overflow range; maxTxSize in {L-2..L+1, large}. Oracle: reference size from the original bytes, big-integer minimum; accepted (fee rule / size rule / whole rule list) => reference holds; MinFeeTx must err on overflow; a size-rule rejection must report L. non-trivial = decoder accepted and the fee rule was evaluated at the three boundary settings; distinct by (era, path, tx hash, style plan)")
	defer rec.Finish()
	rec.Assume("x/crypto ed25519+blake2b trusted; xcbor (independent CBOR layer) defines the original bytes and item ranges",
		"the original encoding of a block-derived transaction is [body, witnesses, (is_valid,) aux/null] with a minimal array head over the original item bytes (Dijkstra: the inline item)",
		"properties are conditional on the era decoder accepting the re-encoding")

	// ---- deterministic cases (also the minimal reproductions) ------------------
	for _, era := range allEras {
		for _, sc := range c30Scenarios(era) {
			c30Evaluate(rec, sc.C, sc.B, sc.E, c30FixedSettings, func(key, what string, cs any) { rec.Violation(key, what, cs) })
		}
	}

	collect := os.Getenv("VERIF_COLLECT_KEYS") != "" // triage aid: count every failing key instead of stopping
	rec.Check(func(rt *rapid.T) {
		fail := func(rt *rapid.T, key, what string, cs any) {
			if collect {
				rec.Class("WOULD-FAIL " + key)
				return
			}
			rec.Fail(rt, key, what, cs)
		}
		era := allEras[rapid.IntRange(0, len(allEras)-1).Draw(rt, "era")]
		standalone := rapid.Bool().Draw(rt, "standalone")
		path := map[bool]string{true: "standalone", false: "block"}[standalone]
		// phase-2-invalid transactions: is_valid=false in the envelope (standalone
		// Alonzo..Conway) or membership in the block's invalid-transactions list
		invalid := era >= Alonzo && !(era == Dijkstra && standalone) && rapid.IntRange(0, 4).Draw(rt, "invalid") == 0
		o := genOpts{MaxCerts: 2, Bystanders: !invalid, FewAssets: true}
		if invalid {
			o.BeforeCoins = func(rt *rapid.T, c *Case) {
				lang := 1
				if era >= Conway {
					lang = 3
				}
				c.Tx.Rdms = []Rdm{{Tag: 0, Index: 0, Mem: 1000, Steps: 1000}}
				c.Tx.RdmMap = era >= Conway
				c.Tx.Plutus = []PScript{{Lang: lang, Bytes: []byte{0x45, 1, 1, 0, 0x24, 0x99}}}
				c.Tx.CostModels = c.P.CostModels
				c.Tx.Coll = []In{{TxID: hash256([]byte("c30/coll")), Ix: 0, Key: payKeys[rapid.IntRange(0, 3).Draw(rt, "collKey")],
					V: Val{Coin: 80_000_000}}}
				c.Tx.Invalid = standalone
			}
		}
		c := genCase(rt, era, o)
		tx := c.Tx
		if era == Dijkstra && !standalone {
			tx.ThreeElems = true
		}
		if invalid {
			rec.Class(fmt.Sprintf("%s:%s:phase2_invalid", era, path))
		}
		var styled string
		c30Style(rt, tx, standalone, &styled)
		if styled == "" {
			styled = "canonical"
		}
		e := tx.EncodeAll()
		b := c30Built{Path: path, Styled: styled}
		if standalone {
			dtx, err := decodeTx(era, e.Raw)
			if err != nil {
				rec.Class(fmt.Sprintf("%s:%s:decode_rejected", era, path))
				rec.Class("decode_rejected:" + errClass(err))
				return
			}
			b.Dtx, b.Original, b.Four = dtx, e.Raw, e.FourElems
		} else {
			bt := BlockTx{Body: e.Body, Wits: e.Wits, Aux: e.Aux, Invalid: invalid}
			if era == Dijkstra && rapid.IntRange(0, 2).Draw(rt, "outerForm") == 0 {
				bt.OuterForm = []xcbor.Form{xcbor.FormW1, xcbor.FormW2, xcbor.FormW8, xcbor.FormIndef}[rapid.IntRange(0, 3).Draw(rt, "outerFormWhich")]
				b.Styled += fmt.Sprintf("outer[%s]", bt.OuterForm)
			}
			var txs []BlockTx
			nBefore := rapid.IntRange(0, 2).Draw(rt, "fillBefore")
			nAfter := rapid.IntRange(0, 1).Draw(rt, "fillAfter")
			for i := 0; i < nBefore; i++ {
				txs = append(txs, filler(era, rapid.IntRange(0, nFillers(era)-1).Draw(rt, "filler")))
			}
			b.Index = len(txs)
			txs = append(txs, bt)
			for i := 0; i < nAfter; i++ {
				txs = append(txs, filler(era, rapid.IntRange(0, nFillers(era)-1).Draw(rt, "filler")))
			}
			blk := buildBlock(era, txs)
			b.BlockLen = len(blk)
			lb, err := decodeBlock(era, blk)
			if err != nil {
				rec.Class(fmt.Sprintf("%s:%s:decode_rejected", era, path))
				rec.Class("decode_rejected:" + errClass(err))
				return
			}
			got := lb.Transactions()
			if len(got) != len(txs) {
				rt.Fatalf("harness: block has %d transactions, decoder reports %d", len(txs), len(got))
			}
			b.Dtx = got[b.Index]
			if b.Dtx.IsValid() == invalid {
				rt.Fatalf("harness: transaction %d listed invalid=%v, decoder reports IsValid=%v", b.Index, invalid, b.Dtx.IsValid())
			}
			b.Original = originalOf(era, bt)
			b.Four = era >= Alonzo && era <= Conway
		}
		c30Evaluate(rec, c, b, e, func(size, fee uint64) []c30Setting { return c30Settings(rt, size, fee) },
			func(key, what string, cs any) { fail(rt, key, what, cs) })
	})
}

// c30Evaluate judges one decoded transaction against the reference at the given
// parameter settings; fail is rec.Fail (rapid) or rec.Violation (deterministic part).
func c30Evaluate(rec *evi.Recorder, c *Case, b c30Built, e Encoded, settings func(size, fee uint64) []c30Setting,
	fail func(key, what string, cs any)) {
	era, path, tx := c.Tx.Era, b.Path, c.Tx
	rec.Class(fmt.Sprintf("%s:%s:decoded", era, path))
	if b.Styled != "canonical" {
		rec.Class(fmt.Sprintf("%s:%s:noncanonical_decoded", era, path))
	}
	dtx := b.Dtx
	if dtx.Fee() == nil || !dtx.Fee().IsUint64() || dtx.Fee().Uint64() != tx.Fee {
		panic(fmt.Sprintf("harness: encoded fee %d, decoder reports %v", tx.Fee, dtx.Fee()))
	}
	wantHash := hash256(e.Body)
	if !bytes.Equal(dtx.Hash().Bytes(), wantHash[:]) {
		// the id is C01's subject; signatures will not verify, only the single rules are meaningful
		rec.Class(fmt.Sprintf("%s:%s:tx_hash_differs_from_original_body_hash", era, path))
	}
	L := uint64(len(b.Original))
	size := L
	if b.Four {
		size = L - 1
	}
	libCbor := dtx.Cbor()
	cmp := c30Compare(b.Original, libCbor)
	rec.Class(fmt.Sprintf("%s:%s:cbor_vs_original:%s", era, path, cmp))
	libSize, sizeErr := common.TxSizeForFee(dtx)
	sizeNote := "size-ok"
	switch {
	case sizeErr != nil:
		sizeNote = "size-error"
	case uint64(libSize) < size:
		sizeNote = "lib-size-smaller"
	case uint64(libSize) > size:
		sizeNote = "lib-size-larger"
	}
	rec.Class(fmt.Sprintf("%s:%s:TxSizeForFee:%s", era, path, sizeNote))
	// The statement defines the size: length of the original encoding, minus one
	// for a four-element envelope. When the library holds exactly the original
	// bytes nothing excuses a different figure from its own size function (a too
	// large one only over-rejects in the fee rule, which the one-directional fee
	// oracle below cannot see).
	if sizeErr == nil && cmp == "identical" && uint64(libSize) != size {
		fail(fmt.Sprintf("C30:%s:%s:TxSizeForFee-differs-from-original-size:%s", era, path, sizeNote),
			fmt.Sprintf("common.TxSizeForFee = %d for a transaction whose original encoding is %d bytes (four-element envelope: %v): want %d", libSize, L, b.Four, size),
			map[string]any{"era": era.String(), "path": path, "style": b.Styled, "original_len": L, "ref_size": size, "lib_TxSizeForFee": libSize, "original": evi.Hex(b.Original)})
	}

	st, err := c.state()
	if err != nil {
		rec.Class("state_rejected:" + errClass(err))
		return
	}
	rules := c30Rules(era)
	pur := newPurity(rec, "C30", era.String(), dtx, fail)
	pur.watchState(st)
	defer pur.done()
	c30History(rec, pur, c, b, e, dtx, st, libSize, sizeErr, fail)
	sample := func(s *c30Setting, extra map[string]any) map[string]any {
		m := map[string]any{"era": era.String(), "path": path, "style": b.Styled, "original_len": L, "ref_size": size,
			"lib_cbor_len": len(libCbor), "lib_TxSizeForFee": libSize, "cbor_vs_original": cmp, "fee": tx.Fee,
			"original": evi.Hex(b.Original), "lib_cbor": evi.Hex(libCbor), "index_in_block": b.Index, "net": tx.Net}
		if s != nil {
			m["min_fee_a"], m["min_fee_b"], m["setting"] = s.A, s.B, s.Label
		}
		for k, v := range extra {
			m[k] = v
		}
		return m
	}
	th := hash256(b.Original)
	rec.NonTrivial(fmt.Sprintf("%s/%s/%x/%s", era, path, th[:8], b.Styled), sample(nil, nil))

	// A violation that is fully explained by the library measuring its own
	// re-serialisation instead of the original bytes is reported under one
	// key per (era, path, re-serialised component); anything that is wrong
	// even for the library's own size gets a key of its own.
	libShorter := sizeErr == nil && (uint64(libSize) < size || uint64(len(libCbor)) < L) && cmp != "identical"
	origKey := fmt.Sprintf("C30:%s:%s:original-bytes-not-used:%s", era, path, cmp)

	// ---- fee -------------------------------------------------------------
	for _, s := range settings(size, tx.Fee) {
		s := s
		p := c.P
		p.MinFeeA, p.MinFeeB = s.A, s.B
		p.MaxTxSize = 1 << 30
		pp := p.forEra(era)
		pur.watchParams(pp)
		mk := func(sz uint64) *big.Int {
			m := new(big.Int).Mul(new(big.Int).SetUint64(s.A), new(big.Int).SetUint64(sz))
			return m.Add(m, new(big.Int).SetUint64(s.B))
		}
		feeBig := new(big.Int).SetUint64(tx.Fee)
		refMin := mk(size)
		libMin := mk(uint64(max(libSize, 0))) // what a correct computation over the library's own size gives
		overflow := refMin.Cmp(two64) >= 0
		libOverflow := libMin.Cmp(two64) >= 0
		want := feeBig.Cmp(refMin) >= 0
		explained := libShorter && !libOverflow && feeBig.Cmp(libMin) >= 0
		underpayKey := func(entry string) string {
			switch {
			case explained:
				return origKey
			case libOverflow:
				return fmt.Sprintf("C30:%s:%s:%s-accepts-underpaying:overflow-wrapped", era, path, entry)
			}
			return fmt.Sprintf("C30:%s:%s:%s-accepts-underpaying:arithmetic", era, path, entry)
		}
		ruleErr := pur.twice("fee rule", func() error { return rules.fee(dtx, c.Slot, st, pp) })
		rec.Eval()
		rec.Class(fmt.Sprintf("fee:%s:lib_accepts=%v:ref=%v", s.Label, ruleErr == nil, want))
		if ruleErr == nil && !want {
			fail(underpayKey("fee-rule"),
				fmt.Sprintf("%s fee rule accepts fee %d although a*size+b = %d*%d+%d = %s (original %d bytes, four-element envelope %v; library size %d, Cbor() %d bytes: %s)",
					era, tx.Fee, s.A, size, s.B, refMin, L, b.Four, libSize, len(libCbor), cmp), sample(&s, nil))
		}
		if ruleErr != nil && want {
			rec.Class(fmt.Sprintf("%s:%s:fee_over_rejection:%s", era, path, sizeNote))
			rec.Class("over_rejection_total")
		}
		if rules.minFee != nil {
			mf, mfErr := rules.minFee(dtx, pp)
			if mf2, mfErr2 := rules.minFee(dtx, pp); mf2 != mf || verdictOf(mfErr2) != verdictOf(mfErr) {
				fail(fmt.Sprintf("C30:%s:second-run-verdict-differs", era),
					fmt.Sprintf("%s.MinFeeTx on the same transaction and parameters: first (%d, %v), second (%d, %v)", era, mf, mfErr, mf2, mfErr2), sample(&s, nil))
			}
			rec.Eval()
			switch {
			case overflow && libOverflow:
				rec.Class(fmt.Sprintf("minfee:overflow:err=%v", mfErr != nil))
				if mfErr == nil {
					fail(fmt.Sprintf("C30:%s:%s:MinFeeTx-wraps-on-overflow", era, path),
						fmt.Sprintf("%s.MinFeeTx returns %d without error although %d*%d+%d = %s exceeds uint64", era, mf, s.A, size, s.B, refMin),
						sample(&s, map[string]any{"MinFeeTx": mf}))
				}
			case overflow:
				rec.Class("minfee:overflow_only_for_original_size")
			case mfErr == nil:
				switch new(big.Int).SetUint64(mf).Cmp(refMin) {
				case 0:
					rec.Class("minfee:equals_ref")
				case -1:
					rec.Class(fmt.Sprintf("%s:%s:minfee:below_ref", era, path))
				default:
					rec.Class(fmt.Sprintf("%s:%s:minfee:above_ref", era, path))
				}
			}
		}
		full := pur.twice("VerifyTransaction", func() error { return common.VerifyTransaction(dtx, c.Slot, st, pp, rulesFor(era)) })
		rec.Eval()
		if full == nil {
			rec.Class(fmt.Sprintf("%s:%s:full_accepts:ref=%v", era, path, want))
			if !want {
				fail(underpayKey("rule-list"),
					fmt.Sprintf("VerifyTransaction(%s rules) accepts fee %d although a*size+b = %d*%d+%d = %s (original %d bytes; library size %d: %s)",
						era, tx.Fee, s.A, size, s.B, refMin, L, libSize, cmp), sample(&s, nil))
			}
		} else {
			rec.Class(fmt.Sprintf("%s:%s:full_rejects:ref=%v", era, path, want))
			if want {
				rec.Class(fmt.Sprintf("full_rejects_ref_ok:%s:%s", era, errClass(full)))
			}
		}
	}

	// ---- size -------------------------------------------------------------
	type sizeLimit struct {
		label string
		limit uint64
		full  bool
	}
	limits := []sizeLimit{{"L-2", L - 2, false}, {"L-1", L - 1, true}, {"L+0", L, true}, {"L+1", L + 1, false}}
	// limits at the integer-width boundaries (always far above L)
	for _, v := range []uint64{1<<32 - 1, 1 << 32, 1<<32 + 1, 1<<53 - 1, 1<<53 + 1, 1<<63 - 1, 1<<63 + 1, ^uint64(0)} {
		limits = append(limits, sizeLimit{"special", v, false})
	}
	for _, sl := range limits {
		limit, d := sl.limit, sl.label
		p := c.P
		p.MaxTxSize = uint(limit)
		// generous fee parameters so that the whole list depends on the size only
		p.MinFeeA, p.MinFeeB = 0, 0
		pp := p.forEra(era)
		pur.watchParams(pp)
		want := L <= limit
		oversizeKey := func(entry string) string {
			if libShorter && uint64(len(libCbor)) <= limit {
				return origKey
			}
			return fmt.Sprintf("C30:%s:%s:%s-accepts-oversized", era, path, entry)
		}
		err := pur.twice("max-tx-size rule", func() error { return rules.size(dtx, c.Slot, st, pp) })
		rec.Eval()
		rec.Class(fmt.Sprintf("size:limit=%s:lib_accepts=%v", d, err == nil))
		if err != nil {
			// the number the rule compares must be the same on a second call
			g1, ok1 := c30MaxSizeErr(err)
			g2, ok2 := c30MaxSizeErr(rules.size(dtx, c.Slot, st, pp))
			if ok1 != ok2 || g1 != g2 {
				fail(fmt.Sprintf("C30:%s:second-run-verdict-differs", era),
					fmt.Sprintf("%s max-tx-size rule measures %d bytes on the first and %d bytes on the second call for the same transaction", era, g1, g2),
					sample(nil, map[string]any{"max_tx_size": limit}))
			}
		}
		if err == nil && !want {
			fail(oversizeKey("size-rule"),
				fmt.Sprintf("%s max-tx-size rule accepts an original encoding of %d bytes with maxTxSize %d (Cbor() %d bytes: %s)", era, L, limit, len(libCbor), cmp),
				sample(nil, map[string]any{"max_tx_size": limit}))
		}
		if err != nil {
			if got, ok := c30MaxSizeErr(err); ok && uint64(got) != L {
				key := fmt.Sprintf("C30:%s:%s:size-rule-compares-other-length", era, path)
				if cmp != "identical" && got == uint(len(libCbor)) {
					key = origKey
				}
				fail(key,
					fmt.Sprintf("%s max-tx-size rule compares %d bytes with the limit; the original encoding has %d bytes (%s)", era, got, L, cmp),
					sample(nil, map[string]any{"max_tx_size": limit, "reported_size": got}))
			}
			if want {
				rec.Class(fmt.Sprintf("%s:%s:size_over_rejection", era, path))
				rec.Class("over_rejection_total")
			}
		}
		if sl.full {
			full := pur.twice("VerifyTransaction", func() error { return common.VerifyTransaction(dtx, c.Slot, st, pp, rulesFor(era)) })
			rec.Eval()
			if full == nil && !want {
				fail(oversizeKey("rule-list"),
					fmt.Sprintf("VerifyTransaction(%s rules) accepts an original encoding of %d bytes with maxTxSize %d (%s)", era, L, limit, cmp),
					sample(nil, map[string]any{"max_tx_size": limit}))
			}
			rec.Class(fmt.Sprintf("size:full:limit=%s:lib_accepts=%v", d, full == nil))
		}
	}
}

// c30FixedSettings: a = 1 with the three boundary fees, and the three overflow shapes.
func c30FixedSettings(size, fee uint64) []c30Setting {
	q := (^uint64(0)) / size
	rem := ^uint64(0) - q*size
	return []c30Setting{
		{"fee=min+1", 1, fee - 1 - size}, {"fee=min", 1, fee - size}, {"fee=min-1", 1, fee + 1 - size},
		{"overflow:mul-wraps-small", q + 1, 0}, {"overflow:add-wraps-small", q, rem + 1}, {"near-overflow:max-uint64", q, rem},
	}
}

type c30Scenario struct {
	C *Case
	B c30Built
	E Encoded
}

// c30Scenarios: one small transaction (one input, one output, ttl, metadata)
// per era, canonical and with single non-canonical heads (fee as 8-byte uint,
// witness map with a 2-byte head, metadata map with a 4-byte head, envelope
// with a 2-byte head), standalone and as the second transaction of a block.
func c30Scenarios(era Era) []c30Scenario {
	var out []c30Scenario
	styles := []struct {
		name string
		st   *Styler
	}{
		{"canonical", nil},
		{"body[fee→w8]", &Styler{Body: func(n *xcbor.Node) { n.MapGet(2).Apply(xcbor.FormW8, 0) }}},
		{"wits[map-head→w2]", &Styler{Wits: func(n *xcbor.Node) { n.Apply(xcbor.FormW2, 0) }}},
		{"aux[map-head→w4]", &Styler{Aux: func(n *xcbor.Node) { n.Apply(xcbor.FormW4, 0) }}},
		{"top[array-head→w2]", &Styler{Top: func(n *xcbor.Node) { n.Apply(xcbor.FormW2, 0) }}},
	}
	type variant struct {
		name string
		st   *Styler
		fee  uint64
	}
	var variants []variant
	for _, sty := range styles {
		variants = append(variants, variant{sty.name, sty.st, 300_000})
	}
	// fees at the integer-width boundaries (canonical encoding)
	for _, f := range []uint64{1<<32 - 1, 1 << 32, 1<<32 + 1, 1<<53 - 1, 1 << 53, 1<<53 + 1, 1<<63 - 1, 1 << 63, 1<<63 + 1, ^uint64(0)} {
		variants = append(variants, variant{fmt.Sprintf("canonical fee=%d", f), nil, f})
	}
	for _, sty := range variants {
		for _, standalone := range []bool{true, false} {
			if !standalone && sty.st != nil && sty.st.Top != nil {
				continue
			}
			p := defaultParams(era)
			tx := &TxSpec{Era: era, Net: 0, Fee: sty.fee, TTL: u64p(1000), MetaLabel: u64p(5), Style: sty.st}
			// the fee is paid by an input of exactly that size next to a 100-ada input
			tx.Ins = []In{{TxID: hash256([]byte("c30/in")), Ix: 0, Key: 0, V: Val{Coin: 100_000_000}},
				{TxID: hash256([]byte("c30/in")), Ix: 1, Key: 0, V: Val{Coin: sty.fee}}}
			tx.Outs = []Out{{Addr: payAddr(0, 1), V: Val{Coin: 100_000_000}}}
			tx.ThreeElems = era == Dijkstra && !standalone
			c := &Case{Tx: tx, P: p, SS: newStSpec(), Slot: 10}
			e := tx.EncodeAll()
			b := c30Built{Styled: sty.name}
			if standalone {
				dtx, err := decodeTx(era, e.Raw)
				if err != nil {
					continue
				}
				b.Path, b.Dtx, b.Original, b.Four = "standalone", dtx, e.Raw, e.FourElems
			} else {
				bt := BlockTx{Body: e.Body, Wits: e.Wits, Aux: e.Aux}
				lb, err := decodeBlock(era, buildBlock(era, []BlockTx{filler(era, 0), bt}))
				if err != nil || len(lb.Transactions()) != 2 {
					continue
				}
				b.Path, b.Dtx, b.Original, b.Four, b.Index = "block", lb.Transactions()[1], originalOf(era, bt), era >= Alonzo && era <= Conway, 1
			}
			out = append(out, c30Scenario{c, b, e})
		}
	}
	return out
}

var c30OtherCache = map[Era]ledger.Transaction{}

// c30OtherTx is a fixed, different transaction of the era measured in between.
func c30OtherTx(era Era) ledger.Transaction {
	if t, ok := c30OtherCache[era]; ok {
		return t
	}
	tx := &TxSpec{Era: era, Net: 0, Fee: 555_555, TTL: u64p(77), MetaLabel: u64p(9)}
	tx.Ins = []In{{TxID: hash256([]byte("c30/other/in")), Ix: 3, Key: 1, V: Val{Coin: 900_000_000}}}
	tx.Outs = []Out{{Addr: payAddr(0, 2), V: Val{Coin: 400_000_000}}, {Addr: payAddr(0, 3), V: Val{Coin: 900_000_000 - 400_000_000 - tx.Fee}}}
	dtx, err := decodeTx(era, tx.EncodeAll().Raw)
	if err != nil {
		panic(err)
	}
	c30OtherCache[era] = dtx
	return dtx
}

// c30History: the size the library measures for a transaction must not depend
// on what was measured before -- neither on a different transaction nor on a
// re-encoding of the SAME body (same transaction hash, different witness-set
// head, hence a different length), and a second call gives the same number.
func c30History(rec *evi.Recorder, pur *purity, c *Case, b c30Built, e Encoded, dtx ledger.Transaction, st *State,
	libSize int, sizeErr error, fail func(key, what string, cs any)) {
	era := c.Tx.Era
	histKey := fmt.Sprintf("C30:%s:verdict-depends-on-history", era)
	s2, err2 := common.TxSizeForFee(dtx)
	rec.Eval()
	if s2 != libSize || verdictOf(err2) != verdictOf(sizeErr) {
		fail(fmt.Sprintf("C30:%s:second-run-verdict-differs", era),
			fmt.Sprintf("common.TxSizeForFee on the same transaction: first %d (%v), second %d (%v)", libSize, sizeErr, s2, err2),
			map[string]any{"tx_cbor": evi.Hex(dtx.Cbor())})
	}
	rules := c30Rules(era)
	sizeAt := func(t ledger.Transaction, limit uint64) (bool, uint) {
		p := c.P
		p.MaxTxSize = uint(limit)
		err := rules.size(t, c.Slot, st, p.forEra(era))
		got, _ := c30MaxSizeErr(err)
		return err == nil, got
	}
	accA, gotA := sizeAt(dtx, uint64(len(b.Original))-1)
	// (1) another transaction in between
	other := c30OtherTx(era)
	_, _ = common.TxSizeForFee(other)
	_, _ = sizeAt(other, 10)
	// (2) the same body with a longer witness-set head: same hash, other bytes
	wn := xcbor.Raw(e.Wits)
	form := xcbor.FormW4
	if !wn.CanApply(form) {
		form = xcbor.FormW8
	}
	if wn.CanApply(form) {
		wn.Apply(form, 0)
		aux := xcbor.Null()
		if e.Aux != nil {
			aux = xcbor.Raw(e.Aux)
		}
		var top *xcbor.Node
		if e.FourElems {
			top = xcbor.A(xcbor.Raw(e.Body), wn, xcbor.Bool(!c.Tx.Invalid), aux)
		} else {
			top = xcbor.A(xcbor.Raw(e.Body), wn, aux)
		}
		raw2 := top.Encode()
		if twin, err := decodeTx(era, raw2); err == nil {
			rec.Class("history:same_hash_twin_decoded")
			want := len(raw2)
			if e.FourElems {
				want--
			}
			got, gerr := common.TxSizeForFee(twin)
			rec.Eval()
			if gerr == nil && got != want {
				key := fmt.Sprintf("C30:%s:standalone:TxSizeForFee-differs-from-original-size:twin", era)
				if got == libSize {
					key = histKey // it is the figure of the transaction measured before
				}
				fail(key, fmt.Sprintf("common.TxSizeForFee = %d for a %d-byte re-encoding (same body, witness-set head %s; want %d) measured after the %s original of the same hash (size %d)",
					got, len(raw2), form, want, b.Path, libSize), map[string]any{"twin": evi.Hex(raw2), "first": evi.Hex(b.Original)})
			}
			if acc, rep := sizeAt(twin, uint64(len(raw2))-1); acc || (rep != 0 && rep != uint(len(raw2))) {
				fail(histKey, fmt.Sprintf("%s max-tx-size rule on a %d-byte re-encoding measured after the original of the same hash: accepted=%v at limit %d, reported size %d",
					era, len(raw2), acc, len(raw2)-1, rep), map[string]any{"twin": evi.Hex(raw2), "first": evi.Hex(b.Original)})
			}
		} else {
			rec.Class("history:same_hash_twin_decode_rejected")
		}
	}
	// (3) the first transaction again
	s3, err3 := common.TxSizeForFee(dtx)
	rec.Eval()
	if s3 != libSize || verdictOf(err3) != verdictOf(sizeErr) {
		fail(histKey, fmt.Sprintf("common.TxSizeForFee of the same transaction: %d (%v) at first, %d (%v) after other transactions were measured", libSize, sizeErr, s3, err3),
			map[string]any{"tx_cbor": evi.Hex(dtx.Cbor())})
	}
	if acc2, got2 := sizeAt(dtx, uint64(len(b.Original))-1); acc2 != accA || got2 != gotA {
		fail(histKey, fmt.Sprintf("%s max-tx-size rule on the same transaction at limit L-1: accepted=%v size=%d at first, accepted=%v size=%d after other transactions were measured",
			era, accA, gotA, acc2, got2), map[string]any{"tx_cbor": evi.Hex(dtx.Cbor())})
	}
	pur.rec.Class("purity:history_compared")
}
