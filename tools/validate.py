#!/opt/veriftools/pyvenv/bin/python3
import json,jsonschema,glob,sys
m=json.load(open('/verif/MANIFEST.json')); jsonschema.validate(m,json.load(open('/root/.vp/MANIFEST.schema.json')))
s=json.load(open('/root/.vp/EVIDENCE.schema.json'))
bad=0
for f in sorted(glob.glob('/verif/evidence/*.json')):
    try: jsonschema.validate(json.load(open(f)),s)
    except Exception as ex: print("INVALID",f,str(ex)[:300]); bad+=1
print("manifest valid; evidence files:",len(glob.glob('/verif/evidence/*.json')),"invalid:",bad)
sys.exit(1 if bad else 0)
