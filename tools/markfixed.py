#!/usr/bin/env python3
"""tools/markfixed.py <Cnn> <commit> <key-regex> : marks matching 'known' entries of known_findings.d/<Cnn>.json as fixed."""
import json, re, sys
pid, commit, rx = sys.argv[1:4]
p = "/verif/known_findings.json"
k = json.load(open(p))
n = 0
for e in k:
    if e.get("property") == pid and e.get("status") == "known" and re.search(rx, e["key"]):
        e["status"] = "fixed"
        e["commit"] = commit
        if not e["what"].startswith("fixed:"):
            e["what"] = f"fixed: property={pid} {commit} " + e["what"]
        n += 1
json.dump(k, open(p, "w"), indent=1)
print(pid, "marked fixed:", n, "remaining known:", sum(1 for e in k if e.get("status") == "known"))
