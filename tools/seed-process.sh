#!/bin/bash
# tools/seed-process.sh <Cnn> [name]: imports /tmp/seed-Cnn/out into /verif/seeded/<name>, confirms it
# (tools/seed-verify.sh) and runs the property's check against it (quick, then thorough if missed).
ID=$1; NAME=${2:-$ID-a}
SRC=${3:-/tmp/seed-$ID/out}; DST=/verif/seeded/$NAME
[ -f $SRC/patch.diff ] && [ -f $SRC/meta.json ] || { echo "no deliverables in $SRC"; exit 2; }
mkdir -p $DST && cp -r $SRC/* $DST/
echo "== patch touches:"; grep '^+++ ' $DST/patch.diff
/verif/tools/seed-verify.sh $DST > $DST/verify.log 2>&1; V=$?
tail -4 $DST/verify.log
CAUGHT="not run"
if [ $V -eq 0 ]; then
  /verif/tools/mutant-run.sh $ID $DST/patch.diff quick > $DST/check-quick.log 2>&1; Q=$?
  grep -E "^VIOLATION|^  key=|MUTANT-RESULT" $DST/check-quick.log | cut -c1-300 | head -6
  if [ $Q -eq 1 ]; then CAUGHT="quick"; else
    /verif/tools/mutant-run.sh $ID $DST/patch.diff thorough > $DST/check-thorough.log 2>&1; T=$?
    grep -E "^VIOLATION|^  key=|MUTANT-RESULT" $DST/check-thorough.log | cut -c1-300 | head -6
    if [ $T -eq 1 ]; then CAUGHT="thorough"; else CAUGHT="MISSED (quick exit $Q, thorough exit $T)"; fi
  fi
fi
python3 - "$DST" "$V" "$CAUGHT" "$ID" <<'PY'
import json,sys,re
d,v,c,i=sys.argv[1:5]
m=json.load(open(d+'/meta.json'))
m['confirmed']=(v=='0'); m['caught_by']=f"./check {i} "+c if c in('quick','thorough') else c
key=None
for f in ('check-quick.log','check-thorough.log'):
    try:
        mm=re.search(r'^  key=(\S+)',open(d+'/'+f).read(),re.M)
        if mm: key=mm.group(1); break
    except Exception: pass
m['violation_key']=key
m['verified_with']=["tools/seed-verify.sh (demo passes without / fails with the patch; go test ./... passes with it)","tools/mutant-run.sh "+i+" patch.diff quick|thorough"]
json.dump(m,open(d+'/meta.json','w'),indent=1)
print("SEED",d,"confirmed=",m['confirmed'],"caught_by=",m['caught_by'],"key=",key)
PY
