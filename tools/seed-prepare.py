#!/usr/bin/env python3
"""tools/seed-prepare.py Cnn [Cnn...]: creates /tmp/seed-Cnn/{wt (worktree of /repo HEAD), out/, TASK.md}."""
import json, os, subprocess, sys
props = {json.loads(l)["id"]: json.loads(l) for l in open("/verif/properties.jsonl") if l.strip()}
for arg in sys.argv[1:]:
    i, _, suffix = arg.partition(":")
    p = props[i]
    d = f"/tmp/seed-{i}{suffix}"
    avoid = ""
    if suffix:
        prev = []
        import glob
        for mp in sorted(glob.glob(f"/verif/seeded/{i}-*/meta.json")):
            m = json.load(open(mp))
            prev.append("* " + m.get("summary", "") + " (needs: " + m.get("needs", "") + ")")
        if prev:
            avoid = "\n## Already taken\n\nEarlier workers already delivered the following change(s) for this property; yours must use a DIFFERENT mechanism, in a different function (ideally a different file), breaking a different clause or a different part of the input/schedule space:\n\n" + "\n".join(prev) + "\n"
    subprocess.run(["git", "-C", "/repo", "worktree", "remove", "--force", d + "/wt"], capture_output=True)
    subprocess.run(["rm", "-rf", d]); os.makedirs(d + "/out")
    subprocess.run(["git", "-C", "/repo", "worktree", "add", "--detach", "-q", d + "/wt", "HEAD"], check=True)
    open(d + "/TASK.md", "w").write(f"""# Task

You have a scratch git worktree of the Go library blinklabs-io/gouroboros at `{d}/wt` (Cardano Ouroboros
mini-protocols, muxer, CBOR ledger types). Work ONLY inside `{d}`; do not read or write anything under `/verif`
or `/repo`. Shell environment for every command: `export GOFLAGS=-mod=mod GOPROXY=off` (no network; never set
GOSUMDB=off). The machine is shared: give every `go test` an explicit `-timeout`.

## The property

**{p['title']}**

{p['statement']}

It is meant to hold for: {p['quantifier']['text']}

{avoid}
## What to produce

A change to the library (a patch to files under `{d}/wt`, NOT to test files) that **breaks this property while the
library still compiles and its existing test suite still passes** (`cd {d}/wt && go test -count=1 -timeout 20m ./...`
— at least all packages your change can affect must be run, and must pass), plus a **demonstration**: one Go test
file (package-internal or external, your choice) that **fails with your change and passes without it**.

The change must be *realistic* (something that could slip through review: an off-by-one, a dropped check, a
reordering, a "harmless" refactor or optimisation, a wrong constant, a missed case) and it must need **something
specific to manifest** — a particular interleaving, a fault at a particular point, a multi-step sequence of
operations, an unusual (but admissible) input, or two cooperating sites that each look fine alone — not something
that ordinary use or the existing tests would expose at once. Do not simply disable a whole feature. Prefer a change
that touches code the property is actually about. Keep the patch small (typically < 40 changed lines).

## Deliverables (all under `{d}/out/`)

* `patch.diff` — `git -C {d}/wt diff` of the library change only (no test files in it).
* the demonstration test file(s).
* `meta.json`:
  ```json
  {{"property": "{i}",
    "summary": "<one sentence: what the change does>",
    "breaks": "<which clause of the property it breaks and how>",
    "needs": "<what specific input / sequence / interleaving / fault is needed for it to manifest>",
    "demo_files": [{{"src": "<file name in out/>", "dst": "<path relative to the repo root where it must be placed>"}}],
    "demo_cmd": "<shell command run from the repo root, e.g. go test -count=1 -timeout 120s -run '^TestSeedDemo$' ./ledger/common>",
    "ran": ["<commands you ran and their outcome, incl. the existing tests with the change applied>"]}}
  ```
The demo command must exit 0 on the unmodified worktree and non-zero with the patch applied; verify both yourself
(use `git diff > ../p.diff; git apply -R ../p.diff; ...; git apply ../p.diff` — NEVER `git stash`: the stash is shared between all worktrees of this repository and other workers use it concurrently). When finished, leave the worktree in any state (it will be deleted) and reply with a
short summary (what you changed, why it is hard to notice, what you verified).
""")
    print("prepared", d)
