#!/bin/bash
# Usage: tools/seed-verify.sh <seed-dir>   (contains patch.diff, meta.json {demo_files:[{src,dst}], demo_cmd}, demo files)
# Confirms in a scratch worktree of /repo HEAD: demo passes without the patch, patch applies and builds,
# demo fails with the patch, and the repository's own test suite (guard off) still passes with the patch.
set -u
D=$(readlink -f "$1"); WT=/tmp/seedwt-$$
export GOFLAGS=-mod=mod GOPROXY=off
cleanup() { git -C /repo worktree remove --force "$WT" >/dev/null 2>&1; rm -rf "$WT"; git -C /repo worktree prune; }
trap cleanup EXIT
git -C /repo worktree add --detach -q "$WT" HEAD || exit 2
python3 - "$D" "$WT" <<'PY'
import json,sys,shutil,os
d,wt=sys.argv[1:3]
m=json.load(open(os.path.join(d,'meta.json')))
for f in m['demo_files']:
    dst=os.path.join(wt,f['dst']); os.makedirs(os.path.dirname(dst),exist_ok=True); shutil.copy(os.path.join(d,f['src']),dst)
open(os.path.join(wt,'.seed_cmd'),'w').write(m['demo_cmd'])
PY
CMD=$(cat "$WT/.seed_cmd")
echo "== demo without patch: $CMD"
( cd "$WT" && timeout 600 bash -c "$CMD" ) > /tmp/seedv-$$-a.log 2>&1; A=$?
tail -3 /tmp/seedv-$$-a.log
echo "== apply patch"
git -C "$WT" apply "$D/patch.diff" || { echo "SEED-VERIFY: patch does not apply"; exit 3; }
( cd "$WT" && go build ./... ) || { echo "SEED-VERIFY: does not build"; exit 3; }
echo "== demo with patch"
( cd "$WT" && timeout 600 bash -c "$CMD" ) > /tmp/seedv-$$-b.log 2>&1; B=$?
tail -5 /tmp/seedv-$$-b.log
echo "== repository test suite with patch (demo files removed)"
python3 - "$D" "$WT" <<'PY'
import json,sys,os
d,wt=sys.argv[1:3]
for f in json.load(open(os.path.join(d,'meta.json')))['demo_files']:
    os.remove(os.path.join(wt,f['dst']))
PY
( cd "$WT" && go test -vet=off -count=1 -timeout 25m ./... ) > /tmp/seedv-$$-c.log 2>&1; C=$?
grep -v "^ok\|no test files" /tmp/seedv-$$-c.log | head -20
if [ $C -ne 0 ]; then
  # timing-sensitive repository tests (muxer, chainsync client tests) flake when the machine is loaded:
  # a package counts as failing only if it also fails three re-runs on its own
  PKGS=$(grep -E "^FAIL\s+github.com" /tmp/seedv-$$-c.log | awk '{print $2}' | sed 's#github.com/blinklabs-io/gouroboros#.#')
  C=0
  for pk in $PKGS; do
    okp=1
    for try in 1 2 3; do
      if ( cd "$WT" && go test -vet=off -count=1 -timeout 25m $pk ) > /tmp/seedv-$$-d.log 2>&1; then okp=0; break; fi
    done
    echo "== re-run of $pk alone: $([ $okp -eq 0 ] && echo passes || echo STILL FAILS)"
    [ $okp -ne 0 ] && C=1
  done
fi
echo "SEED-VERIFY demo_without_patch_exit=$A demo_with_patch_exit=$B suite_exit=$C"
rm -f /tmp/seedv-$$-*.log
[ $A -eq 0 ] && [ $B -ne 0 ] && [ $C -eq 0 ] && { echo "SEED-VERIFY: CONFIRMED"; exit 0; }
echo "SEED-VERIFY: NOT CONFIRMED"; exit 1
