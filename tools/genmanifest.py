#!/usr/bin/env python3
"""Regenerates MANIFEST.json from checks.json (claimed checks) and na.json (reasons for unclaimed)."""
import json, os
R = os.path.dirname(os.path.dirname(os.path.abspath(__file__)))
import glob
checks = {os.path.basename(p)[:-5]: json.load(open(p)) for p in sorted(glob.glob(os.path.join(R, "checks.d", "C*.json")))}
props = [json.loads(l) for l in open(os.path.join(R, "properties.jsonl")) if l.strip()]
na = {}
p = os.path.join(R, "na.json")
if os.path.exists(p):
    na = json.load(open(p))
hooks = json.load(open(os.path.join(R, "hooks.json")))
m = {
 "version": 1,
 "setup_cmd": "./setup.sh",
 "hooks": hooks,
 "engines": [
  {"name": "harness", "path": "harness", "serves_properties": sorted(checks),
   "kind_free_text": "Go module with pgregory.net/rapid v1.3.0 property tests (one TestCnn per property), independent CBOR layer, in-memory adversarial peer, reference models; driven by ./check"}
 ],
 "checks": [],
 "not_applicable": [],
 "notes": "Every check: ./check <id> quick|thorough; exit 0 held / 1 VIOLATION / 2 inconclusive (infrastructure). Known findings: known_findings.json. See DESIGN.md."
}
for pr in props:
    i = pr["id"]
    if i in checks:
        c = checks[i]
        m["checks"].append({
            "property_id": i,
            "quick_cmd": "./check %s quick" % i,
            "thorough_cmd": "./check %s thorough" % i,
            "evidence_file": "evidence/%s.json" % i,
            "replay_cmd_template": "./check %s --replay {path}" % i,
            "engine": "harness",
            "level_claimed": {"category": c.get("level", "exploration"), "text": c["level_text"], "design_ref": c.get("design_ref", "DESIGN.md §4 " + i)},
            "level_note": c["level_note"],
            "technique": c["technique"],
        })
    else:
        m["not_applicable"].append({"property_id": i, "reason": na.get(i, "check not built yet in this session; no claim is made (see DESIGN.md §8)")})
json.dump(m, open(os.path.join(R, "MANIFEST.json"), "w"), indent=1)
print("claimed", len(m["checks"]), "not_applicable", len(m["not_applicable"]))
