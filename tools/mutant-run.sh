#!/bin/bash
# Usage: tools/mutant-run.sh <Cnn> <patch.diff> [quick|thorough]
# Runs ./check <Cnn> against a scratch worktree of /repo (HEAD + working-tree hooks)
# with <patch.diff> applied, WITHOUT touching /repo or /verif. Prints the check's
# output and "MUTANT-RESULT exit=<code>" (1 = caught, 0 = missed, 2 = inconclusive).
set -u
ID=$1; PATCH=$(readlink -f "$2"); TIER=${3:-quick}
TAG=$ID-$$
WT=/tmp/mutwt-$TAG; VC=/tmp/mutv-$TAG
cleanup() { git -C /repo worktree remove --force "$WT" >/dev/null 2>&1; rm -rf "$WT" "$VC"; git -C /repo worktree prune; }
trap cleanup EXIT
git -C /repo worktree add --detach -q "$WT" HEAD || exit 2
if ! git -C "$WT" apply "$PATCH"; then echo "patch does not apply"; echo "MUTANT-RESULT exit=2"; exit 2; fi
mkdir -p "$VC"
rsync -a --exclude .git --exclude .build --exclude evidence --exclude replays /verif/ "$VC"/
mkdir -p "$VC/evidence" "$VC/replays"
sed -i "s#=> /repo#=> $WT#" "$VC/harness/go.mod"
( cd "$VC" && VERIF_SEED=${VERIF_SEED:-0} ./check "$ID" "$TIER" )
rc=$?
echo "MUTANT-RESULT exit=$rc"
exit $rc
