#!/usr/bin/env python3
"""seed-closed.py <seeded-name> <tier> <violation_key> <why-missed-and-what-was-added>
Record that a seeded change first missed by both tiers is now caught after strengthening."""
import json, sys
name, tier, key, why = sys.argv[1:5]
p = f'/verif/seeded/{name}/meta.json'
d = json.load(open(p))
cid = d['property']
d['caught_by'] = f'./check {cid} {tier} (after strengthening: {why})'
d['violation_key'] = key
d['missed_initially'] = True
json.dump(d, open(p, 'w'), indent=1)
print('updated', p)
