#!/bin/bash
# tools/runall.sh <tier> <seed> [ids...] : runs checks sequentially, prints one summary line each.
TIER=${1:-quick}; SEED=${2:-0}; shift 2
IDS="$@"; [ -z "$IDS" ] && IDS=$(ls /verif/checks.d | sed 's/.json//')
cd /verif
for i in $IDS; do
  t0=$(date +%s)
  out=$(VERIF_SEED=$SEED ./check $i $TIER 2>&1); rc=$?
  t1=$(date +%s)
  nk=$(echo "$out" | grep -c '^KNOWN-FINDING')
  echo "$i rc=$rc wall=$((t1-t0))s known_lines=$nk :: $(echo "$out" | grep -v '^KNOWN-FINDING' | tail -1 | cut -c1-160)"
  if [ $rc -ne 0 ]; then echo "$out" | grep -v '^KNOWN-FINDING' | tail -15 | cut -c1-300 | sed 's/^/    | /'; fi
done
