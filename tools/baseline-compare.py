#!/usr/bin/env python3
"""Runs the repository's baseline suite with the verif guard OFF and checks that every test listed as
stable_pass in /root/.vp/BASELINE.json passes (a package that fails is re-run alone up to 3 times:
some timing-sensitive muxer / client tests flake when the machine is loaded)."""
import json, subprocess, sys, os
base = json.load(open('/root/.vp/BASELINE.json'))
want = set(base['stable_pass'])
env = dict(os.environ, GOFLAGS='-mod=mod', GOPROXY='off')
def run(pkgs):
    p = subprocess.run(['go', 'test', '-json', '-vet=off', '-count=1', '-timeout', '25m'] + pkgs, cwd='/repo', env=env, capture_output=True, text=True)
    res = {}
    for l in p.stdout.splitlines():
        try: e = json.loads(l)
        except Exception: continue
        if e.get('Test') and e.get('Action') in ('pass', 'fail', 'skip'):
            res[e['Package'] + '::' + e['Test']] = e['Action']
    return res
res = run(['./...'])
bad = sorted(t for t in want if res.get(t) != 'pass')
for attempt in range(3):
    if not bad: break
    pkgs = sorted(set(t.split('::')[0] for t in bad))
    print('re-running alone:', pkgs)
    res.update({k: v for k, v in run([p.replace('github.com/blinklabs-io/gouroboros', '.') for p in pkgs]).items() if v == 'pass'})
    bad = sorted(t for t in want if res.get(t) != 'pass')
print('stable_pass tests:', len(want), 'passing now:', len(want) - len(bad), 'total tests seen:', len(res))
for t in bad[:40]: print('  NOT PASSING:', t, res.get(t))
sys.exit(1 if bad else 0)
