#!/bin/bash
# Usage: tools/mkmutant.sh <out.diff> <file-relative-to-repo> <python-expr-old> <python-expr-new>
# Creates a mutant diff by replacing exactly one occurrence of OLD with NEW in FILE (scratch worktree).
set -e
OUT=$(readlink -f "$1"); F=$2; OLD=$3; NEW=$4
WT=/tmp/mkmut-$$
git -C /repo worktree add --detach -q "$WT" HEAD
trap 'git -C /repo worktree remove --force "$WT" >/dev/null 2>&1; git -C /repo worktree prune' EXIT
python3 - "$WT/$F" "$OLD" "$NEW" <<'PY'
import sys
p,old,new=sys.argv[1:4]
s=open(p).read()
n=s.count(old)
if n!=1:
    print("occurrences:",n); sys.exit(1)
open(p,'w').write(s.replace(old,new))
PY
( cd "$WT" && GOFLAGS=-mod=mod GOPROXY=off go build ./... )
git -C "$WT" diff > "$OUT"
echo "wrote $OUT"
